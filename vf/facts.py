"""
One pass over a world's observation log that attributes wire packets and deliveries to API
requests (by payload / topic markers and by packet identifier), so that the monitors can speak
about "the k-th transmission of request r" and "the PUBACK delivered for request r".
"""
import re

_PM = re.compile(rb"^#(\d+)#")
_SM = re.compile(r"^[su](\d+)/")

EPS = 1e-6


class Tx(object):
    __slots__ = ("ei", "step", "t", "c", "ctx", "f", "raw", "kind", "where")

    def __init__(self, e, kind, f, raw):
        self.ei, self.step, self.t, self.c, self.ctx = e.i, e.step, e.t, e.c, e.ctx
        self.where = e.d["where"]
        self.kind, self.f, self.raw = kind, f, raw


class RInfo(object):
    """wire view of one publish / subscribe / unsubscribe request"""

    def __init__(self, req):
        self.req = req
        self.rid = req.rid
        self.kind = req.kind
        self.a = req.conn.a
        self.conn = req.conn
        self.qos = req.args.get("qos") if req.kind == "publish" else None
        self.tx = []          # PUBLISH / SUBSCRIBE / UNSUBSCRIBE transmissions
        self.rel = []         # PUBREL transmissions (QoS 2 publish)
        self.acks = []        # (ei, step, t, kind, conn idx) deliveries bearing its id while unfinished
        self.accepted = False
        self.fire = None      # first (ei, step, t, out, val)
        self.msgid = req.msgid

    def first_tx(self):
        return self.tx[0] if self.tx else None

    def got(self, kind, before_ei=None):
        for k in self.acks:
            if k[3] == kind and (before_ei is None or k[0] < before_ei):
                return k
        return None

    def finished_at(self):
        return self.fire[0] if self.fire else None


def marker_of(kind, f):
    try:
        if kind == "PUBLISH":
            m = _PM.match(f["payload"])
            return int(m.group(1)) if m else None
        if kind == "SUBSCRIBE":
            m = _SM.match(f["topics"][0][0])
            return int(m.group(1)) if m and f["topics"][0][0][0] == "s" else None
        if kind == "UNSUBSCRIBE":
            m = _SM.match(f["topics"][0])
            return int(m.group(1)) if m and f["topics"][0][0] == "u" else None
    except Exception:  # noqa: BLE001
        return None
    return None


class Facts(object):
    def __init__(self, w):
        self.w = w
        self.info = {}                    # rid -> RInfo for publish/subscribe/unsubscribe requests
        self.frames = []                  # (Tx) every wire frame, in order
        self.unattributed = []
        self.rx = []                      # rx events
        self.escapes = [e for e in w.log if e.k == "escape"]
        self.step_end = {}                # step -> 'timers' event
        self.profile = w.cfg["profile"]
        self._build()

    def _build(self):
        w = self.w
        for r in w.reqs:
            if r.kind in ("publish", "subscribe", "unsubscribe"):
                ri = RInfo(r)
                self.info[r.rid] = ri
                if r.ret == "deferred":
                    if r.fires:
                        ri.fire = r.fires[0]
                    # accepted = the call took effect: a Deferred that is pending after the call, or
                    # (QoS 0) already succeeded
                    in_call = bool(r.fires) and r.fires[0][1] == r.step and self._fired_in_own_call(r)
                    if not in_call:
                        ri.accepted = True
                    elif r.fires[0][3] == "ok" and r.kind == "publish" and r.args.get("qos") == 0:
                        ri.accepted = True
        open_by_id = {}   # (addr, id) -> rid of the request currently using that id
        phase = {}
        for e in w.log:
            if e.k == "phase":
                phase[e.c] = e.d["new"]
            if e.k == "api":
                r = w.reqs[e.d["rid"]]
                ri = self.info.get(r.rid)
                if ri is not None and ri.accepted and isinstance(ri.msgid, int):
                    open_by_id[(ri.a, ri.msgid)] = ri.rid
            elif e.k == "write":
                for fr in e.d["frames"]:
                    kind, f, raw = fr[0], fr[1], fr[2]
                    if kind == "MALFORMED":
                        continue
                    tx = Tx(e, kind, f, raw)
                    self.frames.append(tx)
                    if kind in ("PUBLISH", "SUBSCRIBE", "UNSUBSCRIBE"):
                        rid = marker_of(kind, f)
                        ri = self.info.get(rid) if rid is not None else None
                        if (ri is None or ri.kind != kind.lower()) and f.get("id") is not None:
                            # content no longer recognisable: fall back on the identifier of the open request
                            rid2 = open_by_id.get((w.conns[e.c].a, f["id"]))
                            r2 = self.info.get(rid2) if rid2 is not None else None
                            if r2 is not None and r2.kind == kind.lower() and r2.tx:
                                ri = r2
                        if ri is not None and ri.kind == kind.lower():
                            ri.tx.append(tx)
                        else:
                            self.unattributed.append(tx)
                    elif kind == "PUBREL":
                        a = w.conns[e.c].a
                        rid = open_by_id.get((a, f["id"]))
                        ri = self.info.get(rid) if rid is not None else None
                        if ri is not None and ri.kind == "publish" and ri.qos == 2:
                            ri.rel.append(tx)
                        else:
                            self.unattributed.append(tx)
            elif e.k == "rx":
                self.rx.append(e)
                for d in e.d.get("parts") or [e.d["desc"]]:
                    self._ack(e, d, phase, open_by_id)
            elif e.k == "timers":
                self.step_end[e.step] = e

    def _ack(self, e, d, phase, open_by_id):
        w = self.w
        if True:
            if True:
                if d and d[0] in ("PUBACK", "PUBREC", "PUBCOMP", "SUBACK", "UNSUBACK") and phase.get(e.c) == "connected":
                    a = w.conns[e.c].a
                    rid = open_by_id.get((a, d[1]))
                    ri = self.info.get(rid) if rid is not None else None
                    if ri is not None and ri.tx and ri.tx[0].ei < e.i and (ri.fire is None or ri.fire[0] > e.i):
                        want = {"publish": ("PUBACK",) if ri.qos == 1 else ("PUBREC", "PUBCOMP"),
                                "subscribe": ("SUBACK",), "unsubscribe": ("UNSUBACK",)}[ri.kind]
                        if d[0] in want and (d[0] != "PUBCOMP" or any(k[3] == "PUBREC" for k in ri.acks)):
                            if self._after_client_closed(e, ri, d[0]):
                                return     # behind a packet whose callback called disconnect(): rightly ignored
                            ri.acks.append((e.i, e.step, e.t, d[0], e.c))

    def _after_client_closed(self, e, ri, kind):
        """In a segment of several packets, one whose callback makes the application disconnect() is followed by
        packets the client no longer looks at.  There is no event per packet of a segment, so: when the client
        closed or aborted inside this delivery, an acknowledgement counts only if its reaction is visible
        (the Deferred fired, or the PUBREL was written)"""
        if len(e.d.get("parts") or []) < 2:
            return False
        from .sim import within
        closed = False
        reacted = False
        i = e.i + 1
        log = self.w.log
        while i < len(log) and within(log[i].ctx, e.ctx):
            x = log[i]
            if x.k in ("close", "abort") and x.c == e.c:
                closed = True
            elif x.k == "fire" and x.d.get("rid") == ri.rid:
                reacted = True
            elif x.k == "write" and kind == "PUBREC" and any(
                    fr[0] == "PUBREL" and isinstance(fr[1], dict) and fr[1].get("id") == ri.msgid for fr in x.d["frames"]):
                reacted = True
            i += 1
        return closed and not reacted

    def _fired_in_own_call(self, r):
        ei = r.fires[0][0]
        # the 'fire' event index: find ctx of that event
        if ei < len(self.w.log):
            ctx = self.w.log[ei].ctx
            return bool(ctx) and ctx[0] == "api" and ctx[-1] == r.rid
        return False

    # --- helpers used by several monitors
    def pubs(self):
        return [ri for ri in self.info.values() if ri.kind == "publish"]

    def reqs_of(self, kind):
        return [ri for ri in self.info.values() if ri.kind == kind]

    def ctx_of(self, ei):
        return self.w.log[ei].ctx

    def already_called(self):
        return [e for e in self.escapes if e.d["exc"] == "AlreadyCalledError"]
