"""
C01 (round trip of the library codec) and C02 (library codec against the reference codec).

A codec case is a dict:
  {"kind": str, "f": fields in refcodec naming (payload/password/will_message may be str or
   bytearray), "v": 3|4, "feed": "bytearray"|"bytes"}
Primitive cases: {"kind": "u16"|"varint"|"string", ...}.
"""
import itertools

from hypothesis import given, seed as hseed, settings, HealthCheck, Phase, strategies as st

from . import boot
from .boot import libpdu
from . import refcodec as R
from .core import Prop, ShardResult, Verdict, NPROC

V31, V311 = boot.v31, boot.v311

CLIENT_KINDS = ("CONNECT", "PUBLISH", "PUBACK", "PUBREC", "PUBREL", "PUBCOMP", "SUBSCRIBE",
                "UNSUBSCRIBE", "PINGREQ", "DISCONNECT")
BROKER_KINDS = ("CONNACK", "PUBLISH", "PUBACK", "PUBREC", "PUBREL", "PUBCOMP", "SUBACK", "UNSUBACK",
                "PINGRESP")
ALL_KINDS = ("CONNECT", "CONNACK", "PUBLISH", "PUBACK", "PUBREC", "PUBREL", "PUBCOMP", "SUBSCRIBE",
             "SUBACK", "UNSUBSCRIBE", "UNSUBACK", "PINGREQ", "PINGRESP", "DISCONNECT")
LIBCLASS = {"PINGRESP": "PINGRES"}


def libclass(kind):
    return getattr(libpdu, LIBCLASS.get(kind, kind))


def tobytes(p):
    return p.encode("utf-8") if isinstance(p, str) else bytes(p)


# ------------------------------------------------------------------ lib <-> fields

def make_lib(kind, f, v):
    """a library PDU object carrying the fields (as the client code sets them)"""
    o = libclass(kind)()
    if kind == "CONNECT":
        o.clientId = f["client_id"]
        o.keepalive = f["keepalive"]
        o.cleanStart = f["clean"]
        o.willTopic = f.get("will_topic")
        o.willMessage = f.get("will_message")
        o.willQoS = f.get("will_qos") if f.get("will_topic") is not None else 0
        o.willRetain = f.get("will_retain") if f.get("will_topic") is not None else False
        o.username = f.get("username")
        o.password = f.get("password")
        o.version = V31 if v == 3 else V311
    elif kind == "CONNACK":
        o.session = f["session_present"]
        o.resultCode = f["code"]
    elif kind == "PUBLISH":
        o.qos, o.dup, o.retain = f["qos"], f["dup"], f["retain"]
        o.topic, o.msgId, o.payload = f["topic"], f["id"], f["payload"]
    elif kind in ("PUBACK", "PUBREC", "PUBREL", "PUBCOMP", "UNSUBACK"):
        o.msgId = f["id"]
    elif kind == "SUBSCRIBE":
        o.msgId = f["id"]
        o.topics = [tuple(t) for t in f["topics"]]
    elif kind == "UNSUBSCRIBE":
        o.msgId = f["id"]
        o.topics = list(f["topics"])
    elif kind == "SUBACK":
        o.msgId = f["id"]
        o.granted = [((c & 0x7F), bool(c & 0x80)) for c in f["codes"]]
    return o


def expected_decoded(kind, f, v):
    """what a fresh library object must hold after decode(), per the C01 statement"""
    if kind == "CONNECT":
        e = dict(clientId=f["client_id"], keepalive=f["keepalive"], cleanStart=bool(f["clean"]),
                 version=V31 if v == 3 else V311, willTopic=None, willMessage=None, willQoS=None,
                 willRetain=None, username=f.get("username"), password=None)
        if f.get("will_topic") is not None:
            wm = f["will_message"]
            e.update(willTopic=f["will_topic"], willMessage=wm, willQoS=f["will_qos"],
                     willRetain=bool(f["will_retain"]))
        if f.get("password") is not None:
            e["password"] = tobytes(f["password"])
        return e
    if kind == "CONNACK":
        return dict(session=bool(f["session_present"]), resultCode=f["code"])
    if kind == "PUBLISH":
        return dict(qos=f["qos"], dup=bool(f["dup"]), retain=bool(f["retain"]), topic=f["topic"],
                    msgId=f["id"] if f["qos"] else None, payload=tobytes(f["payload"]))
    if kind in ("PUBACK", "PUBREC", "PUBCOMP", "UNSUBACK"):
        return dict(msgId=f["id"])
    if kind == "PUBREL":
        return dict(msgId=f["id"], dup=False)
    if kind == "SUBSCRIBE":
        return dict(msgId=f["id"], topics=[tuple(t) for t in f["topics"]])
    if kind == "UNSUBSCRIBE":
        return dict(msgId=f["id"], topics=list(f["topics"]))
    if kind == "SUBACK":
        return dict(msgId=f["id"], granted=[((c & 0x7F), bool(c & 0x80)) for c in f["codes"]])
    return {}


def observed(kind, o, exp):
    got = {}
    for k in exp:
        val = getattr(o, k, "<absent>")
        if k in ("payload", "password") and isinstance(val, (bytes, bytearray)):
            val = bytes(val)
        if k == "topics" and isinstance(val, list):
            val = [tuple(x) if isinstance(x, (list, tuple)) else x for x in val]
        if k == "granted" and isinstance(val, list):
            val = [tuple(x) for x in val]
        got[k] = val
    return got


def same(a, b):
    """equal, and of equal kind for bool/int/str (True == 1 must not hide a flag that became an int
    -- but the statement says 'the same field values', so equality is what we demand)"""
    return a == b


def ref_fields(kind, f):
    g = dict(f)
    if kind == "CONNECT":
        for k in ("will_message", "password"):
            if g.get(k) is not None:
                g[k] = tobytes(g[k])
    if kind == "PUBLISH":
        g["payload"] = tobytes(g["payload"])
    return g


# ------------------------------------------------------------------ the two oracles

def feed(raw, how):
    return bytearray(raw) if how == "bytearray" else bytes(raw)


def check_c01(case, vd):
    kind = case["kind"]
    if kind == "u16":
        n = case["n"]
        try:
            e = libpdu.encode16Int(n)
            ok = len(e) == 2 and libpdu.decode16Int(e) == n and libpdu.decode16Int(bytes(e) + case.get("tail", b"")) == n
        except Exception as x:  # noqa: BLE001
            vd.bad("C01.u16.raises", "%d: %r" % (n, x))
            return
        if not ok:
            vd.bad("C01.u16", "n=%d -> %r" % (n, bytes(e)))
        return
    if kind == "varint":
        n = case["n"]
        try:
            e = libpdu.encodeLength(n)
            d1 = libpdu.decodeLength(e)
            d2 = libpdu.decodeLength(bytearray(e) + bytearray(case.get("tail", b"")))
            e2 = libpdu.encodeLength(n)
        except Exception as x:  # noqa: BLE001
            vd.bad("C01.varint.raises", "%d: %r" % (n, x))
            return
        if not (d1 == n and d2 == n and bytes(e) == bytes(e2) and 1 <= len(e) <= 4):
            vd.bad("C01.varint", "n=%d enc=%s dec=%r dec_with_tail=%r" % (n, bytes(e).hex(), d1, d2))
        return
    if kind == "string":
        s, tail = case["s"], case.get("tail", b"")
        try:
            e = libpdu.encodeString(s)
            d, rest = libpdu.decodeString(bytearray(e) + bytearray(tail))
            e2 = libpdu.encodeString(s)
        except Exception as x:  # noqa: BLE001
            vd.bad("C01.string.raises", "len=%d: %r" % (len(s), x))
            return
        if not (d == s and bytes(rest) == bytes(tail) and bytes(e) == bytes(e2)):
            vd.bad("C01.string", "len=%d chars, %d bytes: decoded %d chars rest=%d" % (
                len(s), len(s.encode("utf-8")), len(d), len(rest)))
        return
    f, v = case["f"], case["v"]
    try:
        o1 = make_lib(kind, f, v)
        b1 = o1.encode()
        b1b = o1.encode()
        o2 = make_lib(kind, f, v)
        b2 = o2.encode()
    except Exception as x:  # noqa: BLE001
        vd.bad("C01.%s.encode_raises" % kind, "%s: %r" % (type(x).__name__, str(x)[:100]))
        return
    if not (isinstance(b1, bytes) and b1 == b1b == b2):
        vd.bad("C01.%s.nondeterministic" % kind, "encode twice differs or is not bytes")
        return
    exp = expected_decoded(kind, f, v)
    try:
        o3 = libclass(kind)()
        o3.decode(feed(b1, case.get("feed", "bytearray")))
    except Exception as x:  # noqa: BLE001
        vd.bad("C01.%s.decode_raises" % kind, "%s: %r" % (type(x).__name__, str(x)[:100]))
        return
    got = observed(kind, o3, exp)
    for k in sorted(exp):
        if not same(got[k], exp[k]):
            vd.bad("C01.%s.%s" % (kind, k), "sent %s got %s" % (_abbr(exp[k]), _abbr(got[k])))
    if kind == "PUBREL":
        # DUP is patched into the first byte by the client, not an encodable field
        try:
            o4 = libclass(kind)()
            patched = bytearray(b1)
            patched[0] |= 0x08
            o4.decode(patched)
            if not (o4.dup is True and o4.msgId == f["id"]):
                vd.bad("C01.PUBREL.dup", "patched DUP not decoded")
        except Exception as x:  # noqa: BLE001
            vd.bad("C01.PUBREL.decode_raises", repr(x))


def _abbr(x):
    r = repr(x)
    return r if len(r) < 80 else r[:60] + "...(%d)" % len(r)


def check_c02(case, vd):
    kind = case["kind"]
    mode = case.get("mode", "enc")
    f, v = case.get("f"), case.get("v", 4)
    if mode == "unrep":
        try:
            o = make_lib(kind, f, v)
            out = o.encode()
        except (ValueError, TypeError):
            return
        except Exception as x:  # noqa: BLE001
            vd.bad("C02.unrep.wrong_exception", "%s %s: %s" % (kind, case.get("why"), type(x).__name__))
            return
        vd.bad("C02.unrep.emitted", "%s %s: emitted %d bytes" % (kind, case.get("why"), len(out)))
        return
    if mode == "enc":
        try:
            want = R.ref_encode(kind, ref_fields(kind, f), v)
        except R.Unrepresentable:
            return
        try:
            got = make_lib(kind, f, v).encode()
        except Exception as x:  # noqa: BLE001
            vd.bad("C02.%s.encode_raises" % kind, "%s: %s" % (type(x).__name__, str(x)[:100]))
            return
        if got != want:
            i = next((k for k in range(min(len(got), len(want))) if got[k] != want[k]), min(len(got), len(want)))
            vd.bad("C02.%s.bytes" % kind, "first difference at offset %d: lib %s ref %s (lens %d/%d)" % (
                i, got[i:i + 8].hex(), want[i:i + 8].hex(), len(got), len(want)))
            return
        try:
            k2, f2, soft = R.ref_decode(got, R.C2B, v)
        except R.Malformed as m:
            vd.bad("C02.%s.strict" % kind, m.reason)
            return
        # deviations that are the caller's choice of value, not the encoder's doing, are not judged
        soft = [x for x in soft if not x.startswith(("empty topic", "wildcard", "U+0000", "packet id 0"))]
        if soft:
            vd.bad("C02.%s.strict" % kind, "; ".join(soft))
        return
    if mode == "dec":
        try:
            raw = R.ref_encode(kind, ref_fields(kind, f), v)
        except R.Unrepresentable:
            return
        exp = expected_decoded(kind, f, v)
        try:
            o = libclass(kind)()
            o.decode(feed(raw, case.get("feed", "bytearray")))
        except Exception as x:  # noqa: BLE001
            vd.bad("C02.%s.decode_raises" % kind, "%s: %s" % (type(x).__name__, str(x)[:100]))
            return
        if kind == "PUBREL":
            exp["dup"] = bool(f.get("dup")) and v == 3
        got = observed(kind, o, exp)
        for k in sorted(exp):
            if not same(got[k], exp[k]):
                vd.bad("C02.%s.dec.%s" % (kind, k), "sent %s got %s" % (_abbr(exp[k]), _abbr(got[k])))


# ------------------------------------------------------------------ strategies

_chars = st.characters(min_codepoint=1, max_codepoint=0x10FFFF, exclude_categories=("Cs",))
SPECIAL_CP = ["\ufeff", "\ufffe", "\uffff", "\x01", "\x7f", "\x80", "\u07ff", "\u0800", "\ud7ff", "\ue000", "\ufffd",
              "\U00010000", "\U0010FFFF", "\u200b", "\u0301", "\u202e", " ", "\t", "\n", "#", "+", "$"]
_unit = st.one_of(
    st.text(alphabet=_chars, min_size=1, max_size=5),
    st.sampled_from(["a", "\u00e9", "\u20ac", "\U0001F600", "a\u00e9\u20ac\U0001F600", "/", "\u00f1/\u20ac", "\x7f", "\u07ff\u0800",
                     "\uffff", "\U00010000", "\U0010FFFF", "\ud7ff"]),
    # boundary code points (BOM, non-characters, first/last of each UTF-8 width, zero-width, bidi) leading the string
    st.builds(lambda a, b: a + b, st.sampled_from(SPECIAL_CP), st.sampled_from(["", "a", "\u00e9/\u20ac"])),
)
LEN_CLASSES = [0, 1, 2, 3, 23, 24, 126, 127, 128, 129, 255, 256, 16383, 16384, 65534, 65535]


def fill(unit, nbytes):
    """a string of exactly nbytes UTF-8 bytes made of repetitions of unit, padded with 'a'"""
    ub = len(unit.encode("utf-8"))
    if nbytes <= 0 or ub == 0:
        return "a" * max(nbytes, 0)
    reps = nbytes // ub
    s = unit * reps
    rest = nbytes - reps * ub
    # fit as much of the unit as possible on a character boundary
    for ch in unit:
        cb = len(ch.encode("utf-8"))
        if cb <= rest:
            s += ch
            rest -= cb
        else:
            break
    return s + "a" * rest


@st.composite
def mqtt_text(draw, small_bias=True, maxbytes=65535):
    unit = draw(_unit)
    which = draw(st.integers(0, 9))
    if which <= 5 and small_bias:
        n = draw(st.integers(0, 40))
    elif which <= 8:
        n = draw(st.sampled_from(LEN_CLASSES))
    else:
        n = draw(st.integers(0, maxbytes))
    return fill(unit, min(n, maxbytes))


_id = st.one_of(st.sampled_from([1, 2, 255, 256, 257, 32767, 32768, 65280, 65534, 65535]), st.integers(1, 65535))
_u16 = st.one_of(st.sampled_from([0, 1, 255, 256, 65535]), st.integers(0, 65535))
REMAINING_TARGETS = [0, 1, 126, 127, 128, 129, 16382, 16383, 16384, 16385, 2097150, 2097151, 2097152, 2097153]


@st.composite
def payload_for(draw, overhead, big_ok):
    """payload sized so that the remaining length lands around a 1/2/3/4-byte boundary"""
    unit = draw(_unit)
    which = draw(st.integers(0, 19))
    if which <= 9:
        n = draw(st.integers(0, 60))
    elif which <= 17 or not big_ok:
        n = max(0, draw(st.sampled_from(REMAINING_TARGETS[:10])) - overhead)
    else:
        n = max(0, draw(st.sampled_from(REMAINING_TARGETS[10:])) - overhead)
    s = fill(unit, n)
    if draw(st.booleans()):
        return s
    return bytearray(s.encode("utf-8"))


@st.composite
def fields_for(draw, kind, big_ok=False):
    if kind == "CONNECT":
        f = dict(client_id=draw(mqtt_text()), keepalive=draw(_u16), clean=draw(st.booleans()),
                 will_topic=None, will_message=None, will_qos=None, will_retain=None,
                 username=None, password=None)
        if draw(st.booleans()):
            f.update(will_topic=draw(mqtt_text()), will_message=draw(mqtt_text()),
                     will_qos=draw(st.integers(0, 2)), will_retain=draw(st.booleans()))
        if draw(st.booleans()):
            f["username"] = draw(mqtt_text())
            if draw(st.booleans()):
                f["password"] = draw(mqtt_text())
        return f
    if kind == "CONNACK":
        return dict(session_present=draw(st.booleans()), code=draw(st.one_of(st.integers(0, 5), st.integers(0, 255))))
    if kind == "PUBLISH":
        qos = draw(st.integers(0, 2))
        topic = draw(mqtt_text())
        over = 2 + len(topic.encode("utf-8")) + (2 if qos else 0)
        return dict(topic=topic, qos=qos, dup=draw(st.booleans()) if qos else False,
                    retain=draw(st.booleans()), id=draw(_id) if qos else None,
                    payload=draw(payload_for(over, big_ok)))
    if kind in ("PUBACK", "PUBREC", "PUBCOMP", "UNSUBACK"):
        return dict(id=draw(_id))
    if kind == "PUBREL":
        return dict(id=draw(_id), dup=False)
    if kind == "SUBSCRIBE":
        n = draw(st.one_of(st.integers(1, 4), st.integers(1, 30), st.sampled_from([1, 2, 200])))
        if n > 30:
            t = draw(mqtt_text())
            topics = [(t + str(i), (i + n) % 3) for i in range(n)] if len(t.encode("utf-8")) < 60000 else [(t, 1)]
        else:
            topics = [(draw(mqtt_text()), draw(st.integers(0, 2))) for _ in range(n)]
        return dict(id=draw(_id), topics=topics, dup=False)
    if kind == "UNSUBSCRIBE":
        n = draw(st.one_of(st.integers(1, 4), st.integers(1, 30), st.sampled_from([1, 2, 200])))
        if n > 30:
            t = draw(mqtt_text())
            topics = [t + str(i) for i in range(n)] if len(t.encode("utf-8")) < 60000 else [t]
        else:
            topics = [draw(mqtt_text()) for _ in range(n)]
        return dict(id=draw(_id), topics=topics, dup=False)
    if kind == "SUBACK":
        n = draw(st.one_of(st.integers(1, 5), st.integers(1, 300)))
        return dict(id=draw(_id), codes=draw(st.lists(st.sampled_from([0, 1, 2, 0x80]), min_size=n, max_size=n)))
    return {}


@st.composite
def packet_case(draw, kinds, big_ok=False, mode=None):
    kind = draw(st.sampled_from(kinds))
    c = {"kind": kind, "f": draw(fields_for(kind, big_ok)), "v": draw(st.sampled_from([3, 4])),
         "feed": draw(st.sampled_from(["bytearray", "bytearray", "bytes"]))}
    if mode:
        c["mode"] = mode
    return c


@st.composite
def primitive_case(draw):
    which = draw(st.integers(0, 2))
    tail = draw(st.binary(max_size=6))
    if which == 0:
        return {"kind": "u16", "n": draw(_u16), "tail": tail}
    if which == 1:
        b = draw(st.sampled_from([0, 127, 128, 16383, 16384, 2097151, 2097152, 268435455]))
        n = min(268435455, max(0, b + draw(st.integers(-300, 300))))
        if draw(st.integers(0, 3)) == 0:
            n = draw(st.integers(0, 268435455))
        return {"kind": "varint", "n": n, "tail": tail}
    return {"kind": "string", "s": draw(mqtt_text()), "tail": tail}


@st.composite
def unrep_case(draw):
    """inputs that cannot be represented: encode must raise ValueError / TypeError"""
    which = draw(st.integers(0, 5))
    v = draw(st.sampled_from([3, 4]))
    unit = draw(_unit)
    over = draw(st.sampled_from([65536, 65537, 70000, 131072]))
    long_s = fill(unit, over)
    # "<= 65535 characters but > 65535 bytes"
    if draw(st.booleans()):
        long_s = "€" * draw(st.sampled_from([21846, 30000, 65535]))
    bad_id = draw(st.sampled_from([-1, -2, -65536, 65536, 65537, 2 ** 31, 2 ** 32 + 5]))
    if which == 0:
        kind = draw(st.sampled_from(["PUBLISH", "SUBSCRIBE", "UNSUBSCRIBE"]))
        f = draw(fields_for(kind))
        if kind == "PUBLISH":
            f["topic"] = long_s
        elif kind == "SUBSCRIBE":
            f["topics"] = f["topics"][:2] + [(long_s, 1)]
        else:
            f["topics"] = f["topics"][:2] + [long_s]
        return {"kind": kind, "f": f, "v": v, "mode": "unrep", "why": "string of %d bytes" % len(long_s.encode())}
    if which == 1:
        f = draw(fields_for("CONNECT"))
        fld = draw(st.sampled_from(["client_id", "will_topic", "will_message", "username", "password"]))
        if fld.startswith("will"):
            f.update(will_topic="w", will_message="m", will_qos=0, will_retain=False)
        if fld in ("username", "password"):
            f.update(username="u")
        f[fld] = long_s
        return {"kind": "CONNECT", "f": f, "v": v, "mode": "unrep", "why": "%s of %d bytes" % (fld, len(long_s.encode()))}
    if which == 2:
        kind = draw(st.sampled_from(["PUBACK", "PUBREC", "PUBREL", "PUBCOMP", "SUBSCRIBE", "UNSUBSCRIBE", "PUBLISH"]))
        f = draw(fields_for(kind))
        if kind == "PUBLISH":
            f["qos"] = draw(st.integers(1, 2))
        f["id"] = bad_id
        return {"kind": kind, "f": f, "v": v, "mode": "unrep", "why": "id %d" % bad_id}
    if which == 3:
        f = draw(fields_for("PUBLISH"))
        p = draw(st.sampled_from(["bytes", "int", "float", "none", "list", "memoryview", "bool", "dict"]))
        f["payload"] = {"bytes": b"abc", "int": 65537, "float": 12.25, "none": None, "list": [1, 2],
                        "memoryview": "<mv>", "bool": True, "dict": {}}[p]
        return {"kind": "PUBLISH", "f": f, "v": v, "mode": "unrep", "why": "payload type %s" % p}
    if which == 4:
        f = draw(fields_for("CONNECT"))
        f["keepalive"] = draw(st.sampled_from([-1, 65536, 2 ** 20]))
        return {"kind": "CONNECT", "f": f, "v": v, "mode": "unrep", "why": "keepalive %d" % f["keepalive"]}
    f = draw(fields_for("PUBLISH"))
    f["payload"] = "x"
    f["topic"] = long_s
    return {"kind": "PUBLISH", "f": f, "v": v, "mode": "unrep", "why": "topic of %d bytes" % len(long_s.encode())}


def _fix_unrep(case):
    if case.get("mode") == "unrep" and case["kind"] == "PUBLISH" and case["f"].get("payload") == "<mv>":
        case["f"]["payload"] = memoryview(b"abc")
    return case


# ------------------------------------------------------------------ non-triviality / labels

def classify(case, vd):
    kind = case["kind"]
    if kind in ("u16", "varint", "string"):
        vd.label("prim:" + kind)
        if kind == "varint":
            n = case["n"]
            vd.label("varint_width:%d" % (1 if n < 128 else 2 if n < 16384 else 3 if n < 2097152 else 4))
            vd.nontrivial = n >= 128
        elif kind == "string":
            s = case["s"]
            vd.nontrivial = any(ord(c) > 127 for c in s) or len(s.encode("utf-8")) >= 128
            vd.label("strlen:%s" % _lenclass(len(s.encode("utf-8"))))
        else:
            vd.nontrivial = case["n"] not in (5, 6, 30001, 30002, 65535)
        return
    f = case["f"]
    vd.label("kind:" + kind, "v:%d" % case.get("v", 4), "mode:%s" % case.get("mode", "rt"))
    strs = []
    opt = 0
    listlen = 0
    for k, val in f.items():
        if isinstance(val, str):
            strs.append(val)
        elif isinstance(val, list):
            listlen = max(listlen, len(val))
            for it in val:
                if isinstance(it, tuple) and isinstance(it[0], str):
                    strs.append(it[0])
                elif isinstance(it, str):
                    strs.append(it)
    if kind == "CONNECT":
        opt = sum(1 for k in ("will_topic", "username", "password") if f.get(k) is not None) + (0 if f.get("clean") else 1)
    if kind == "PUBLISH":
        opt = (1 if f.get("dup") else 0) + (1 if f.get("retain") else 0) + (1 if f.get("qos") == 2 else 0)
    nonascii = any(ord(c) > 127 for s in strs for c in s[:50] + s[-5:])
    widths = set()
    for s in strs:
        for c in s[:12]:
            o = ord(c)
            widths.add(1 if o < 0x80 else 2 if o < 0x800 else 3 if o < 0x10000 else 4)
    for wd in widths:
        vd.label("utf8_width:%d" % wd)
    total = sum(len(s.encode("utf-8")) + 2 for s in strs)
    p = f.get("payload")
    if isinstance(p, (str, bytes, bytearray)):
        total += len(tobytes(p))
        vd.label("payload:%s" % type(p).__name__)
    vd.label("remaining_width:%d" % (1 if total < 126 else 2 if total < 16380 else 3 if total < 2097148 else 4))
    for s in strs[:3]:
        vd.label("strlen:%s" % _lenclass(len(s.encode("utf-8"))))
    vd.nontrivial = bool(nonascii or total >= 128 or opt >= 2 or listlen >= 2 or case.get("mode") == "unrep")


def _lenclass(n):
    for b in (0, 1, 127, 128, 16383, 16384, 65535):
        if n == b:
            return str(b)
    return "<128" if n < 128 else "<16384" if n < 16384 else "<65535"


# ------------------------------------------------------------------ JSON for replay files

def enc_json(x):
    if isinstance(x, bytearray):
        return {"__ba__": bytes(x).hex()}
    if isinstance(x, bytes):
        return {"__b__": x.hex()}
    if isinstance(x, memoryview):
        return {"__mv__": bytes(x).hex()}
    if isinstance(x, tuple):
        return {"__t__": [enc_json(v) for v in x]}
    if isinstance(x, list):
        return [enc_json(v) for v in x]
    if isinstance(x, dict):
        if all(isinstance(k, str) for k in x):
            return {"__d__": dict((k, enc_json(v)) for k, v in x.items())}
        return {"__r__": repr(x)}
    if isinstance(x, float):
        return {"__f__": x}
    return x


def dec_json(x):
    if isinstance(x, list):
        return [dec_json(v) for v in x]
    if isinstance(x, dict):
        if "__ba__" in x:
            return bytearray(bytes.fromhex(x["__ba__"]))
        if "__b__" in x:
            return bytes.fromhex(x["__b__"])
        if "__mv__" in x:
            return memoryview(bytes.fromhex(x["__mv__"]))
        if "__t__" in x:
            return tuple(dec_json(v) for v in x["__t__"])
        if "__d__" in x:
            return dict((k, dec_json(v)) for k, v in x["__d__"].items())
        if "__f__" in x:
            return x["__f__"]
        if "__r__" in x:
            return {}
    return x


def abbreviate(x, lim=120):
    if isinstance(x, str) and len(x) > lim:
        return x[:40] + "...(%d chars, %d bytes)" % (len(x), len(x.encode("utf-8", "replace")))
    if isinstance(x, (bytes, bytearray)):
        return {"bytes": bytes(x[:32]).hex(), "len": len(x), "type": type(x).__name__}
    if isinstance(x, memoryview):
        return "memoryview"
    if isinstance(x, dict):
        return dict((k, abbreviate(v, lim)) for k, v in x.items())
    if isinstance(x, (list, tuple)):
        return [abbreviate(v, lim) for v in list(x)[:8]] + (["...(%d entries)" % len(x)] if len(x) > 8 else [])
    return x


# ------------------------------------------------------------------ the two properties

class CodecProp(Prop):
    quick_examples = 2500
    thorough_examples = 60000
    assumptions = [
        "reference codec vf/refcodec.py is a faithful reading of OASIS MQTT 3.1.1 / MQTT 3.1",
        "decode() is fed a bytearray (what the client's reassembly loop passes) or bytes",
    ]

    def checker(self, case, vd):
        raise NotImplementedError

    def strategy(self, tier):
        raise NotImplementedError

    def check_case(self, case):
        vd = Verdict()
        classify(case, vd)
        self.checker(_fix_unrep(case), vd)
        return vd

    def case_to_json(self, case):
        return enc_json(case)

    def case_from_json(self, j):
        return dec_json(j)

    def shards(self, tier, seed):
        n = self.quick_examples if tier == "quick" else self.thorough_examples
        specs = [("gen", tier, seed * 1000 + i, n) for i in range(NPROC)]
        specs += self.extra_shards(tier, seed)
        return specs

    def extra_shards(self, tier, seed):
        return []

    def run_shard(self, spec):
        res = ShardResult()
        if spec[0] == "gen":
            _, tier, sd, n = spec
            prop = self

            @hseed(sd)
            @settings(max_examples=n, database=None, deadline=None, phases=[Phase.generate],
                      suppress_health_check=list(HealthCheck), report_multiple_bugs=False)
            @given(self.strategy(tier))
            def run(case):
                vd = prop.check_case(case)
                res.add("generated", case, vd)
            run()
            res.samples = [abbreviate(s) for s in res.samples]
            return res
        return self.run_extra(spec, res)

    def run_extra(self, spec, res):
        return res

    def shrink(self, case, rule):
        """simplify fields one at a time while the same rule still fails"""
        def fails(c):
            return any(v.rule == rule for v in self.check_case(c).viols)
        if "f" not in case or case.get("mode") == "unrep":
            return case
        cur = dict(case, f=dict(case["f"]))
        for _ in range(3):
            for k in sorted(cur["f"]):
                val = cur["f"][k]
                cands = []
                if isinstance(val, str) and val:
                    cands = ["", "a", val[:len(val) // 2], val[-1:], "a" * len(val)]
                elif isinstance(val, bytearray) and val:
                    cands = [bytearray(), bytearray(b"a"), val[:len(val) // 2]]
                elif isinstance(val, bool):
                    cands = [False]
                elif isinstance(val, int) and val not in (0, 1):
                    cands = [0, 1, val // 2]
                elif isinstance(val, list) and len(val) > 1:
                    cands = [val[:1], val[-1:], val[:len(val) // 2]]
                elif val is not None and k in ("will_topic", "username", "password"):
                    cands = [None]
                for cand in cands:
                    if cand == val:
                        continue
                    trial = dict(cur, f=dict(cur["f"]))
                    trial["f"][k] = cand
                    if k == "will_topic" and cand is None:
                        trial["f"].update(will_message=None, will_qos=None, will_retain=None)
                    try:
                        if fails(trial):
                            cur = trial
                            break
                    except Exception:  # noqa: BLE001
                        pass
        return cur


class C01(CodecProp):
    id = "C01"
    rule = ("Hypothesis-generated valid field assignments for all 14 packet types (strings built by "
            "construction to hit byte-length classes 0/1/127/128/16383/16384/65535 with 1-4 byte UTF-8, "
            "payloads sized to land the remaining length on each 1/2/3/4-byte boundary, str and bytearray "
            "payloads, 1..200 topics) plus primitive cases; exhaustive sweeps of the 16-bit codec and of the "
            "remaining-length codec (boundary bands in quick, whole domain in thorough). Oracle: "
            "decode(encode(x)) == x on a fresh object, encode deterministic. Non-trivial = a non-ASCII "
            "character, or remaining length >= 128, or >= 2 optional fields/flags, or a list of >= 2 entries "
            "(nothing test_pdu.py contains); distinct = distinct case hash.")

    def checker(self, case, vd):
        check_c01(case, vd)

    def strategy(self, tier):
        big = True
        return st.one_of(packet_case(ALL_KINDS, big_ok=big), packet_case(ALL_KINDS, big_ok=big),
                         packet_case(("PUBLISH", "CONNECT", "SUBSCRIBE", "UNSUBSCRIBE")), primitive_case())

    def extra_shards(self, tier, seed):
        specs = [("u16", 0, 65536)]
        if tier == "quick":
            specs.append(("varint_bands",))
        else:
            step = (268435456 + 47) // 48
            specs += [("varint_range", lo, min(lo + step, 268435456)) for lo in range(0, 268435456, step)]
        return specs

    def run_extra(self, spec, res):
        enc, dec = libpdu.encodeLength, libpdu.decodeLength
        if spec[0] == "u16":
            bad = 0
            for n in range(spec[1], spec[2]):
                vd = Verdict()
                check_c01({"kind": "u16", "n": n}, vd)
                vd.nontrivial = True
                res.add("exhaustive_u16", {"kind": "u16", "n": n}, vd, keep_sample=(n == 4660))
                bad += len(vd.viols)
            res.exhaustive["u16"] = {"size": spec[2] - spec[1], "exhaustive": True}
            return res
        if spec[0] == "varint_bands":
            ns = set()
            for b in (0, 127, 128, 16383, 16384, 2097151, 2097152, 268435455):
                ns.update(range(max(0, b - 300), min(268435455, b + 300) + 1))
            for n in sorted(ns):
                vd = Verdict()
                check_c01({"kind": "varint", "n": n, "tail": b"\x81\x00"}, vd)
                vd.nontrivial = n >= 128
                res.add("exhaustive_varint_bands", {"kind": "varint", "n": n}, vd, keep_sample=(n == 16384))
            res.exhaustive["varint_bands"] = {"size": len(ns), "exhaustive": True}
            return res
        if spec[0] == "varint_range":
            lo, hi = spec[1], spec[2]
            # tight loop: the full check is too slow for 2.7e8 values; same oracle, inlined
            cnt = 0
            for n in range(lo, hi):
                e = enc(n)
                if dec(e) != n or len(e) != (1 if n < 128 else 2 if n < 16384 else 3 if n < 2097152 else 4):
                    vd = Verdict()
                    check_c01({"kind": "varint", "n": n}, vd)
                    if not vd.viols:
                        vd.bad("C01.varint", "n=%d enc=%s" % (n, bytes(e).hex()))
                    res.add("exhaustive_varint", {"kind": "varint", "n": n}, vd)
                    cnt += 1
                    if cnt > 3:
                        break
            res.evals += (hi - lo) - cnt
            res.tiers["exhaustive_varint"] += (hi - lo) - cnt
            res.nontriv.add(hash(("varint_range", lo)))   # one distinct block; values counted in evaluations
            res.exhaustive["varint_%d_%d" % (lo, hi)] = {"size": hi - lo, "exhaustive": True}
            return res
        return res


class C02(CodecProp):
    id = "C02"
    rule = ("Same generated input space as C01 for both protocol versions: every client-emitted packet "
            "kind is compared byte for byte with the independent reference encoder and re-parsed by the "
            "strict reference decoder; every broker-sent kind is encoded by the reference and decoded by "
            "the library; unrepresentable inputs (strings > 65535 bytes incl. <=65535 chars but >65535 "
            "bytes, ids outside 0..65535, unsupported payload types) must raise ValueError/TypeError. "
            "Packets written during live sessions are judged by the session monitor wire_conformance "
            "(tier 'live'). Non-trivial as C01, plus every unrepresentable input.")

    def checker(self, case, vd):
        check_c02(case, vd)

    def strategy(self, tier):
        return st.one_of(packet_case(CLIENT_KINDS, big_ok=True, mode="enc"),
                         packet_case(CLIENT_KINDS, big_ok=False, mode="enc"),
                         packet_case(BROKER_KINDS, big_ok=True, mode="dec"),
                         packet_case(BROKER_KINDS, big_ok=False, mode="dec"),
                         unrep_case())

    def _live(self):
        from . import sessions
        return sessions.PROPS["C02live"]

    def check_case(self, case):
        if isinstance(case, dict) and case.get("mode") == "live":
            return self._live().check_case(case["case"])
        return CodecProp.check_case(self, case)

    def case_to_json(self, case):
        if isinstance(case, dict) and case.get("mode") == "live":
            return {"mode": "live", "case": self._live().case_to_json(case["case"])}
        return CodecProp.case_to_json(self, case)

    def case_from_json(self, j):
        if isinstance(j, dict) and j.get("mode") == "live":
            return {"mode": "live", "case": self._live().case_from_json(j["case"])}
        return CodecProp.case_from_json(self, j)

    def shrink(self, case, rule):
        if isinstance(case, dict) and case.get("mode") == "live":
            return {"mode": "live", "case": self._live().shrink(case["case"], rule)}
        return CodecProp.shrink(self, case, rule)

    def extra_shards(self, tier, seed):
        return [("live", tier, seed * 1000 + 500 + i) for i in range(16)]

    def run_extra(self, spec, res):
        if spec[0] == "live":
            r = self._live().run_shard(("gen", spec[1], spec[2], None))
            r.viols = [(rule, wit, {"mode": "live", "case": c}) for (rule, wit, c) in r.viols]
            r.samples = [{"mode": "live", "case": self._live().case_to_json(c)} for c in r.samples[:1]]
            r.tiers = type(r.tiers)({"live_sessions": r.evals})
            return r
        return res
