_CACHE = {}


def get(pid):
    if pid in _CACHE:
        return _CACHE[pid]
    from . import codec
    table = {"C01": codec.C01, "C02": codec.C02}
    try:
        from . import sessions
        table.update(sessions.PROPS_BY_ID)
    except ImportError:
        pass
    p = table[pid]
    _CACHE[pid] = p() if isinstance(p, type) else p
    return _CACHE[pid]
