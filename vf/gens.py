"""
Word -> operation decoding.  One generated integer per operation: bits 0..7 pick the kind through
a per-property weight table, bits 8..31 are three argument bytes, bit 32 picks the address when a
case uses two.  Every decoded operation is total (meaningful in every state), so deleting any
operation leaves a valid case.
"""
from hypothesis import strategies as st

SELS = [0, 0, 0, 1, 2, 2, 3, 4]          # ack selector distribution (oldest .. unknown id)
CODES = [0, 0, 0, 0, 0, 1, 5, 4]


def _size(b, big):
    b = b % 32
    if b < 20:
        return 0
    if b < 25:
        return 1
    if b < 29:
        return 2
    if b < 31 or not big:
        return 3 if b < 31 else 0
    return 3


# ---- op constructors: (addr, a, b, c) -> list of primitive ops

def o_publish(ad, a, b, c):
    return [("publish", ad, a % 3, _size(b, False), c & 1, (c >> 1) & 3, (c >> 3) & 1)]


def o_publish_q0(ad, a, b, c):
    return [("publish", ad, 0, _size(b, False), c & 1, (c >> 1) & 3, (c >> 3) & 1)]


def o_publish_q1(ad, a, b, c):
    return [("publish", ad, 1, _size(b, False), c & 1, (c >> 1) & 3, (c >> 3) & 1)]


def o_publish_q2(ad, a, b, c):
    return [("publish", ad, 2, _size(b, False), c & 1, (c >> 1) & 3, (c >> 3) & 1)]


def o_publish_q12(ad, a, b, c):
    return [("publish", ad, 1 + (a & 1), _size(b, False), c & 1, (c >> 1) & 3, (c >> 3) & 1)]


def o_subscribe(ad, a, b, c):
    return [("subscribe", ad, a % 3, 1 + b % 5, c)]


def o_unsubscribe(ad, a, b, c):
    return [("unsubscribe", ad, a % 2, 1 + b % 5, c)]


def o_puback(ad, a, b, c):
    return [("rx", ad, "PUBACK", SELS[a % 8], b, c)]


def o_pubrec(ad, a, b, c):
    return [("rx", ad, "PUBREC", SELS[a % 8], b, c)]


def o_pubcomp(ad, a, b, c):
    return [("rx", ad, "PUBCOMP", [0, 0, 0, 1, 2, 3, 4, 5][a % 8], b, c)]


SELS2 = [0, 0, 0, 1, 2, 3, 4, 6, 7, 0, 1, 7]   # with "id of another kind's request" and "id outstanding on the other address"


def o_suback(ad, a, b, c):
    return [("rx", ad, "SUBACK", SELS2[a % 12], b, c if c < 128 else 0)]


def o_unsuback(ad, a, b, c):
    return [("rx", ad, "UNSUBACK", SELS2[a % 12], b, c)]


def o_ack_any(ad, a, b, c):
    k = ["PUBACK", "PUBREC", "PUBCOMP", "SUBACK", "UNSUBACK"][c % 5]
    return [("rx", ad, k, SELS2[a % 12], b, 0)]


def o_ack_good(ad, a, b, c):
    """a solicited acknowledgement of whatever kind (no-op when nothing of that kind is outstanding)"""
    k = ["PUBACK", "PUBREC", "PUBCOMP", "SUBACK", "UNSUBACK"][c % 5]
    return [("rx", ad, k, [0, 1, 2][a % 3], b, 0)]


def o_inpub(ad, a, b, c):
    return [("rx", ad, "PUBLISH", a % 3, b, c)]


def o_inpub_q2(ad, a, b, c):
    return [("rx", ad, "PUBLISH", 2, b, c)]


def o_inrel(ad, a, b, c):
    return [("rx", ad, "PUBREL", SELS[a % 8], b, c)]


def o_connack(ad, a, b, c):
    return [("rx", ad, "CONNACK", CODES[a % 8] if b < 200 else c, b & 1)]


def o_connack_ok(ad, a, b, c):
    return [("rx", ad, "CONNACK", 0, b & 1)]


def o_pingresp(ad, a, b, c):
    return [("rx", ad, "PINGRESP")]


def o_advance(ad, a, b, c):
    return [("advance", a % 16)]


def o_advance_small(ad, a, b, c):
    return [("advance", a % 10)]


def o_fire(ad, a, b, c):
    return [("fire", 1 + a % 3)]


def o_fire_many(ad, a, b, c):
    return [("fire", 1 + a % 12)]


def o_lose(ad, a, b, c):
    return [("lose", ad, a % 3)]


def o_disconnect(ad, a, b, c):
    return [("disconnect", ad)]


def o_window(ad, a, b, c):
    return [("window", ad, 1 + a % 16 if b & 1 else 1 + a % 4)]


def o_timeout(ad, a, b, c):
    from .sim import TIMEOUT_TABLE
    return [("timeout", ad, TIMEOUT_TABLE[a % 8] if b & 1 else 1 + ((a * 256 + b) % 1024))]


def o_bandwidth(ad, a, b, c):
    from .sim import BW_TABLE, FACTOR_TABLE
    return [("bandwidth", ad, BW_TABLE[a % 8], FACTOR_TABLE[b % 4])]


def o_handlers(ad, a, b, c):
    return [("handlers", ad, a % 8)]


def o_settle(ad, a, b, c):
    return [("settle", ad)]


def o_build(ad, a, b, c):
    return [("build", ad)]


def o_connect(ad, a, b, c):
    from .sim import KEEPALIVE_TABLE
    return [("connect", ad, KEEPALIVE_TABLE[a % 8] if a < 128 else 0, b & 1, c)]


def _reconnect(ad, a, b, c, clean, ack):
    """build a new protocol for the address (no-op unless the old one is gone), configure, connect"""
    from .sim import KEEPALIVE_TABLE
    ops = [("build", ad), ("handlers", ad, 7 if b & 8 else (b >> 4) & 7)]
    if b & 2:
        ops.append(("window", ad, 1 + (c % 4)))
    ops.append(("connect", ad, KEEPALIVE_TABLE[a % 8] if a & 0x80 else 0, clean, c if b & 4 else 0))
    if ack:
        ops.append(("rx", ad, "CONNACK", 0, a & 1))
    return ops


def o_reconnect(ad, a, b, c):
    return _reconnect(ad, a, b, c, (c >> 7) & 1, True)


def o_reconnect_noack(ad, a, b, c):
    return _reconnect(ad, a, b, c, (c >> 7) & 1, False)


def o_reconnect_persist(ad, a, b, c):
    return _reconnect(ad, a, b, c, 0, bool(a & 2) or bool(a & 4))


def o_reconnect_clean(ad, a, b, c):
    return _reconnect(ad, a, b, c, 1, bool(a & 2) or bool(a & 4))


def o_lose_reconnect_persist(ad, a, b, c):
    return [("lose", ad, a % 3)] + _reconnect(ad, a, b, c, 0, True)


def o_lose_reconnect_clean(ad, a, b, c):
    return [("lose", ad, a % 3)] + _reconnect(ad, a, b, c, 1, True)


def o_resume_with_publish(ad, a, b, c):
    """loss, then a rebuilt protocol with a (possibly larger) window that publishes between connect()
    and CONNACK -- the path where held-back messages are released before the resumption runs"""
    ops = [("lose", ad, a % 3), ("build", ad), ("handlers", ad, 7), ("window", ad, 1 + b % 4),
           ("connect", ad, 0, (a >> 2) & 1 if (a >> 3) & 3 == 0 else 0, 0)]
    for j in range(1 + (c & 1)):
        ops.append(("publish", ad, (c >> (1 + 2 * j)) % 3, 0, 0, 0, 0))
    if (c >> 6) & 1 or True:
        ops.append(("rx", ad, "CONNACK", 0, b & 1))
    return ops


TRIGGERS = ["publish_ok", "onPublish", "subscribe_ok", "connect_ok", "onMqttConnectionMade", "publish_ok", "request_failed", "publish_ok"]
ACTIONS = ["disconnect", "publish", "disconnect", "subscribe", "publish", "unsubscribe", "publish", "disconnect"]


def o_arm(ad, a, b, c):
    """the application reacts from inside a callback (chained calls, the usual Twisted style)"""
    return [("arm", ad, TRIGGERS[a % 8], ACTIONS[b % 8], c % 3)]


def o_arm_reconnect(ad, a, b, c):
    """the application answers a refused connect() by calling connect() again from the errback"""
    return [("arm", ad, "connect_refused", "connect", 0)]


def o_arm_disconnect(ad, a, b, c):
    return [("arm", ad, TRIGGERS[a % 8], "disconnect", 0)]


def o_segment(ad, a, b, c):
    """several broker packets in one TCP segment"""
    n = 2 + a % 3
    ops = [("coalesce", ad, n)]
    kinds = ["PUBACK", "PUBREC", "PUBCOMP", "SUBACK", "UNSUBACK", "PUBLISH", "PUBLISH", "PUBREL", "PINGRESP"]
    for j in range(n):
        k = kinds[(b + 5 * j + (c >> (2 * j))) % 9]
        if k == "PUBLISH":
            ops.append(("rx", ad, "PUBLISH", (c >> j) % 3, (b >> j) & 0x0f, j))
        elif k == "PINGRESP":
            ops.append(("rx", ad, "PINGRESP"))
        elif k == "PUBREL":
            ops.append(("rx", ad, "PUBREL", 0, 0, 0))
        else:
            ops.append(("rx", ad, k, [0, 0, 1, 2][(c + j) % 4], b, 0))
    return ops


def o_quit_inside_segment(ad, a, b, c):
    """the application calls disconnect() from a callback while the same TCP segment still holds more
    packets (they are processed after the DISCONNECT was written)"""
    trig = ["onPublish", "publish_ok", "subscribe_ok", "onPublish"][a % 4]
    first = {"onPublish": ("rx", ad, "PUBLISH", (a >> 2) % 3, b & 0x0f, 0), "publish_ok": ("rx", ad, "PUBACK", 0, 0, 0),
             "subscribe_ok": ("rx", ad, "SUBACK", 0, 0, 0)}[trig]
    rest = [("rx", ad, "PUBLISH", 1 + (c & 1), (c >> 1) & 0x0f, 1), ("rx", ad, "PUBREL", 0, 0, 0), ("rx", ad, "PUBREC", 0, 0, 0),
            ("rx", ad, "PINGRESP")][(c >> 5) % 4]
    return [("arm", ad, trig, "disconnect", 0), ("coalesce", ad, 2), first, rest]


def o_inpub_cut(ad, a, b, c):
    """a large inbound PUBLISH whose first TCP segment ends inside the fixed header / length field"""
    size_bits = [3, 4, 5, 3][b % 4] << 4        # 200 / 20000 / 100000 byte payloads: 2- and 3-byte remaining length
    return [("rx", ad, "PUBLISH", a % 3, size_bits | (b & 0x0f), c % 3, [1 + (c >> 2) % 4])]


def o_partial(ad, a, b, c):
    """the beginning of a broker packet arrives and the rest does not (yet): a few bytes of a PUBLISH"""
    return [("raw", ad, ["30", "3014", "301400", "30140003", "3014000361", "32c801", "9003"][a % 7])]


def o_inpub_huge(ad, a, b, c):
    """an inbound PUBLISH with a 4-byte remaining length (needs cfg big=True, otherwise 17 bytes)"""
    return [("rx", ad, "PUBLISH", a % 3, (7 << 4) | (b & 0x0f), c % 3)]


def o_inpub_q2_burst(ad, a, b, c):
    """more QoS 2 exchanges open at once than any window size: 17..24 PUBLISHes on distinct ids, then their PUBRELs"""
    n = 17 + a % 8
    base = 1100 + (b % 5) * 40
    ops = [("rx", ad, "PUBLISH", 2, c & 0x0f, base + j) for j in range(n)]
    ops += [("rx", ad, "PUBREL", 0, 0, 0) for j in range(n if c & 0x10 else n // 2)]
    return ops


def o_subscribe_many(ad, a, b, c):
    """one subscribe() with 126..260 topics: its SUBACK needs a two-byte remaining length"""
    return [("subscribe", ad, 2, 126 + (a * 3 + b) % 135, c)]


def o_late_connack(ad, a, b, c):
    """a new connection whose CONNACK arrives late: publishes made meanwhile see their retry timers expire
    while the client is still connecting"""
    ops = [("lose", ad, a % 3), ("build", ad), ("handlers", ad, 7), ("window", ad, 1 + b % 4),
           ("connect", ad, 60, (a >> 2) & 1, 0), ("publish", ad, 1 + (c & 1), 0, 0, 0, 0)]
    if c & 2:
        ops.append(("publish", ad, 1 + ((c >> 2) & 1), 0, 0, 0, 0))
    ops.append(("fire", 1 + (c >> 4) % 3))
    ops.append(("rx", ad, "CONNACK", 0, b & 1))
    return ops


class Table(object):
    """cumulative weight table over 256 slots"""

    def __init__(self, entries):
        self.rows = list(entries)
        self.slots = []
        total = float(sum(wt for wt, _ in entries))
        acc = 0.0
        for wt, fn in entries:
            acc += wt
            while len(self.slots) < int(round(256 * acc / total)):
                self.slots.append(fn)
        while len(self.slots) < 256:
            self.slots.append(entries[-1][1])

    def decode(self, words, naddr=1):
        ops = []
        for wd in words:
            fn = self.slots[wd & 0xFF]
            ad = (wd >> 32) & 1 if naddr > 1 else 0
            ops.extend(fn(ad, (wd >> 8) & 0xFF, (wd >> 16) & 0xFF, (wd >> 24) & 0xFF))
        return ops


def words(max_len, min_len=0, naddr=1):
    return st.lists(st.integers(0, 2 ** (33 if naddr > 1 else 32) - 1), min_size=min_len, max_size=max_len)


def cfg_strategy(profiles=(1, 2, 3)):
    return st.fixed_dictionaries({
        "profile": st.sampled_from(profiles),
        "version": st.sampled_from([4, 4, 3]),
        "jitter": st.sampled_from([0.25, 0.0, 0.999]),
    })


def preamble(cfg, p):
    """standard opening of a case: p = dict(handlers, window, timeout_i, keepalive, clean, extra,
    connack(bool), sp)"""
    from .sim import TIMEOUT_TABLE
    ops = [("build", 0), ("handlers", 0, p.get("handlers", 7))]
    if p.get("window", 1) != 1:
        ops.append(("window", 0, p["window"]))
    if p.get("timeout_i") is not None:
        ops.append(("timeout", 0, TIMEOUT_TABLE[p["timeout_i"] % 8]))
    ops.append(("connect", 0, p.get("keepalive", 0), p.get("clean", 1), p.get("extra", 0)))
    if p.get("connack", True):
        ops.append(("rx", 0, "CONNACK", 0, p.get("sp", 0)))
    return ops


def pre_strategy(clean=None, keepalives=(0, 0, 0, 7, 60), windows=(1, 1, 2, 3, 4, 16), connack=(True, True, True, False)):
    return st.fixed_dictionaries({
        "handlers": st.sampled_from([7, 7, 7, 6, 3, 0]),
        "window": st.sampled_from(windows),
        "timeout_i": st.sampled_from([None, None, 0, 1, 3, 4]),
        "keepalive": st.sampled_from(keepalives),
        "clean": st.sampled_from([0, 1]) if clean is None else st.just(clean),
        "extra": st.sampled_from([0, 0, 1, 3, 7, 15, 79]),
        "connack": st.sampled_from(connack),
        "sp": st.sampled_from([0, 1]),
    })
