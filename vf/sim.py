"""
Scenario executor: runs a list of primitive operations against the real library (factory,
protocols, timers) with a harness-owned clock, a transport model written from Twisted's TCP
transport, and a broker that speaks through the reference codec only.  Records an observation
log that the property monitors judge.

A case is (cfg, ops).  cfg = dict(profile=1|2|3, version=3|4, jitter=float).
"""
from . import boot
from .boot import REACTOR, LOGTAP, JITTER
from . import refcodec as R

from twisted.python import failure as _failure
from twisted.internet import error as _neterror
from twisted.internet import defer as _defer

LOSS_REASONS = [_neterror.ConnectionDone, _neterror.ConnectionLost, _neterror.ConnectionAborted]
ADVANCE_TABLE = [0.0, 0.05, 0.1, 0.3, 0.5, 1.0, 1.5, 2.0, 3.0, 4.0, 5.0, 7.0, 10.0, 30.0, 100.0, 1000.0]
LATE_TABLE = [0.0, 0.001, 0.05, 0.3]
TIMEOUT_TABLE = [1, 2, 4, 7, 100, 1024, 3, 50]
BW_TABLE = [1, 10, 100, 1000, 10000, 100000, 10000000, 2.5]
FACTOR_TABLE = [1, 2, 4, 1.5]
KEEPALIVE_TABLE = [0, 7, 1, 2, 5, 60, 65535, 3]
SIZE_TABLE = [0, 100, 200, 20000, 2100000]
TOPICS = ["a/b", "t/é€\U0001F600", "x" * 300, "a"]
MISSING = "<missing>"

ADDRS = None


def _addr(i):
    global ADDRS
    if ADDRS is None:
        from twisted.internet.address import IPv4Address
        ADDRS = [IPv4Address('TCP', 'broker-a', 1883), IPv4Address('TCP', 'broker-b', 1883)]
    return ADDRS[i]


class Ctx(tuple):
    """context of an event: ('api', op, rid) / ('rx', kind, ...) / ('timer', name) / ('lose', reason);
    .parent is the enclosing context when an API call is made from inside a callback"""
    parent = None


def within(ctx, outer):
    while ctx is not None:
        if ctx is outer:
            return True
        ctx = getattr(ctx, "parent", None)
    return False


class Ev(object):
    __slots__ = ("i", "step", "t", "c", "k", "ctx", "d")

    def __init__(self, i, step, t, c, k, ctx, d):
        self.i, self.step, self.t, self.c, self.k, self.ctx, self.d = i, step, t, c, k, ctx, d

    def brief(self):
        d = {}
        for k, v in self.d.items():
            if isinstance(v, (bytes, bytearray)):
                v = v[:48].hex() + ("..(%d)" % len(v) if len(v) > 48 else "")
            elif k == "frames":
                v = [brief_frame(x) for x in v]
            d[k] = v
        return [self.i, self.step, round(self.t, 6), self.c, self.k, list(self.ctx) if self.ctx else None, d]


def brief_frame(fr):
    kind, f = fr[0], fr[1]
    if not isinstance(f, dict):
        return [kind, str(f)]
    g = {}
    for k, v in f.items():
        if isinstance(v, (bytes, bytearray)):
            v = (v[:24].decode("latin-1") + ("..(%d)" % len(v) if len(v) > 24 else ""))
        elif isinstance(v, str) and len(v) > 40:
            v = v[:40] + "..(%d)" % len(v)
        g[k] = v
    return [kind, g]


class FakeTransport(object):
    """Mirrors twisted.internet.abstract.FileDescriptor / tcp.Connection as far as a protocol can
    tell: write() wants bytes; after loseConnection() reading stops but writes are still flushed;
    after abortConnection() reading stops and writes are dropped; connectionLost is reported later,
    by a separate harness step."""
    disconnecting = False
    connected = True

    def __init__(self, world, conn):
        self.w, self.conn = world, conn

    def write(self, data):
        if not isinstance(data, bytes):
            raise TypeError("Data must be bytes")
        self.w._on_write(self.conn, data)

    def writeSequence(self, seq):
        for d in seq:
            self.write(d)

    def loseConnection(self):
        self.w._on_close(self.conn, "close")

    def abortConnection(self):
        self.w._on_close(self.conn, "abort")

    def getPeer(self):
        return self.conn.addr_obj

    def getHost(self):
        return self.conn.addr_obj

    def setTcpNoDelay(self, x):
        pass

    def setTcpKeepAlive(self, x):
        pass


class Conn(object):
    def __init__(self, idx, a, addr_obj):
        self.idx, self.a, self.addr_obj = idx, a, addr_obj
        self.proto = None
        self.tr = None
        self.version = None        # set when connect() is accepted
        self.clean = None
        self.keepalive = None
        self.connect_rid = None
        self.phase = "new"         # harness view: new / connecting / connected / refused / lost
        self.closed = None         # None / 'close' / 'abort'
        self.closed_t = None
        self.lost = False
        self.wire = bytearray()    # bytes that reach the broker
        self.residue = b""
        self.frames = []           # (event index, kind, fields|reason, raw)
        self.framing_broken = False
        # broker's view of what the client has outstanding on this connection (ordered)
        self.b_q1, self.b_q2, self.b_rel, self.b_sub, self.b_unsub = [], [], [], {}, []
        self.b_ping = 0
        self.last_ans = {}
        self.handlers = 0
        self.built_step = None


class Req(object):
    def __init__(self, rid, kind, conn, step, t, args, state_before):
        self.rid, self.kind, self.conn, self.step, self.t = rid, kind, conn, step, t
        self.args, self.state_before = args, state_before
        self.ret = None           # 'deferred' | 'raised' | 'none'
        self.exc = None
        self.msgid = MISSING
        self.fires = []           # (event index, step, t, 'ok'|'err', value)
        self.state_after = None


class CaseTooBig(Exception):
    pass


class World(object):
    MAX_FIRINGS = 4000
    MAX_EVENTS = 60000
    T_MAX = 1.0e9
    LATE = 0.0            # extra lateness of a timer pass (op 'late'); boot.ProxyReactor.READ_LATE is always there

    def __init__(self, cfg):
        self.cfg = cfg
        self.log = []
        self.step = -1
        self.ctx = None
        self.ctx_stack = []
        self.conns = []
        self.cur = {}
        self.reqs = []
        self.in_q2 = {0: {}, 1: {}}       # broker side: inbound QoS 2 exchanges in progress per address
        self.in_last_rel = {0: None, 1: None}
        self.in_seq = 0
        self.ids_seen = set()
        self.skipped = 0
        self.t_nom = 0.0               # the time the history has asked for (advances and timer instants), without lateness
        self.late = self.LATE          # how late the reactor runs the next timer instants (op 'late')
        self.max_late = self.LATE
        self.budget_hit = False
        self.too_big = False
        self.quiet = False
        self.armed = {}
        self.coalesce = {}
        self.ops_done = []
        JITTER.value = cfg.get("jitter", 0.25)
        REACTOR.reset(self)
        LOGTAP.sink = self
        self.factory = boot.MQTTFactory(cfg["profile"])

    # ------------------------------------------------------------------ logging
    def now(self):
        return REACTOR.clock.seconds()

    def ev(self, conn, k, **d):
        e = Ev(len(self.log), self.step, self.now(), conn.idx if conn is not None else None, k, self.ctx, d)
        if self.quiet:
            return e
        if len(self.log) > self.MAX_EVENTS:
            raise CaseTooBig()
        self.log.append(e)
        return e

    def push(self, ctx):
        self.ctx_stack.append(self.ctx)
        c = Ctx(ctx)
        c.parent = self.ctx
        self.ctx = c

    def pop(self):
        self.ctx = self.ctx_stack.pop()

    # sink interface for boot.ProxyReactor / LogTap
    def timer_begin(self, name):
        self.push(("timer", name))
        self.ev(None, "timer", name=name)

    def timer_end(self):
        self.pop()

    def escape(self, where, exc):
        self.ev(None, "escape", where=where, exc=type(exc).__name__, msg=str(exc)[:200])

    # ------------------------------------------------------------------ transport callbacks
    def _on_write(self, conn, data):
        if self.quiet:
            return
        if conn.lost:
            where = "after_lost"
        elif conn.closed == "abort":
            where = "dropped"
        else:
            where = "wire"
            conn.wire.extend(data)
        frames = []
        e = self.ev(conn, "write", data=data, where=where, frames=frames)
        if conn.framing_broken:
            return
        buf = conn.residue + data
        try:
            raws, conn.residue = R.ref_frames(buf)
        except R.Malformed as m:
            conn.framing_broken = True
            frames.append(("MALFORMED", m.reason, buf))
            conn.frames.append((e.i, "MALFORMED", m.reason, buf, where))
            return
        ver = conn.version or R.V311
        for raw in raws:
            try:
                kind, f, soft = R.ref_decode(raw, R.C2B, ver)
            except R.Malformed as m:
                frames.append(("MALFORMED", m.reason, raw))
                conn.frames.append((e.i, "MALFORMED", m.reason, raw, where))
                continue
            if soft:
                f["_soft"] = list(soft)      # decodable, but not what the specification prescribes (C18/C02 judge it)
            frames.append((kind, f, raw))
            conn.frames.append((e.i, kind, f, raw, where))
            if where == "wire":
                self._broker_sees(conn, kind, f)

    def _broker_sees(self, conn, kind, f):
        i = f.get("id")
        if i is not None:
            self.ids_seen.add(i)
        if kind == "PUBLISH":
            if f["qos"] == 1 and i not in conn.b_q1:
                conn.b_q1.append(i)
            elif f["qos"] == 2 and i not in conn.b_q2:
                conn.b_q2.append(i)
        elif kind == "PUBREL":
            if i not in conn.b_rel:
                conn.b_rel.append(i)
        elif kind == "SUBSCRIBE":
            conn.b_sub[i] = len(f["topics"])
        elif kind == "UNSUBSCRIBE":
            if i not in conn.b_unsub:
                conn.b_unsub.append(i)
        elif kind == "PINGREQ":
            conn.b_ping += 1

    def _on_close(self, conn, how):
        self.ev(conn, how)
        if conn.closed is None:
            conn.closed = how
            conn.closed_t = self.now()
            conn.tr.disconnecting = True
        elif how == "abort":
            conn.closed = "abort"

    # ------------------------------------------------------------------ helpers
    def state_name(self, conn):
        p = conn.proto
        try:
            s = p.state
            if s is p.IDLE:
                return "idle"
            if s is p.CONNECTING:
                return "connecting"
            if s is p.CONNECTED:
                return "connected"
            return type(s).__name__
        except Exception:  # noqa: BLE001
            return "?"

    def timers(self):
        out = []
        for c in REACTOR.getDelayedCalls():
            out.append((c.getTime(), getattr(c.func, "__qualname__", "?")))
        out.sort()
        return out

    def set_phase(self, conn, ph):
        if conn.phase != ph:
            self.ev(conn, "phase", old=conn.phase, new=ph)
            conn.phase = ph

    def live(self, a):
        c = self.cur.get(a)
        if c is None or c.lost:
            return None
        return c

    def api_conn(self, a):
        c = self.cur.get(a)
        if c is None:
            return None
        if c.lost and not self.cfg.get("use_lost"):
            return None
        return c

    def track(self, req, d):
        w = self

        def ok(v, req=req):
            req.fires.append((len(w.log), w.step, w.now(), "ok", v))
            w.ev(req.conn, "fire", rid=req.rid, kind=req.kind, out="ok", val=_short(v))
            if w.armed and req.kind in ("publish", "subscribe", "connect") and not (req.kind == "publish" and v is None):
                w.react(req.conn, req.kind + "_ok")
            # applications chain callbacks that return values; a Deferred shared between two requests
            # would hand this value to the next one
            return ("app-result", req.rid)

        def err(fl, req=req):
            req.fires.append((len(w.log), w.step, w.now(), "err", fl.value))
            w.ev(req.conn, "fire", rid=req.rid, kind=req.kind, out="err", val=type(fl.value).__name__,
                 exc=fl.value)
            if w.armed and req.kind == "connect" and req.ret == "deferred" and w.ctx and w.ctx[0] == "rx" and not req.conn.lost:
                w.react(req.conn, "connect_refused")
            if w.armed and req.kind in ("publish", "subscribe", "unsubscribe") and req.ret == "deferred" and len(w.ctx_stack) > 0 \
                    and not (w.ctx and w.ctx[0] == "api" and w.ctx[-1] == req.rid):
                cur = w.cur.get(req.conn.a)
                if cur is not None and cur is not req.conn and not cur.lost:
                    w.react(cur, "request_failed")          # the application reacts on the protocol it holds now
                else:
                    w.react(req.conn, "request_failed", allow_lost=True)
            return None
        d.addCallbacks(ok, err)

    def api(self, conn, kind, args, fn):
        req = Req(len(self.reqs), kind, conn, self.step, self.now(), args, self.state_name(conn))
        self.reqs.append(req)
        self.push(("api", kind, req.rid))
        e = self.ev(conn, "api", op=kind, rid=req.rid, args=args, state=req.state_before)
        try:
            try:
                r = fn(req)
            except CaseTooBig:
                raise
            except Exception as x:  # noqa: BLE001 - raising is API behaviour, the monitors judge it
                req.ret, req.exc = "raised", x
                self.ev(conn, "raised", rid=req.rid, exc=type(x).__name__, excobj=x)
            else:
                if isinstance(r, _defer.Deferred):
                    req.ret = "deferred"
                    req.msgid = getattr(r, "msgId", MISSING)
                    req.deferred = r
                    self.track(req, r)
                else:
                    req.ret = "none"
                    req.retval = r
        finally:
            self.pop()
        req.state_after = self.state_name(conn)
        e.d["ret"] = req.ret
        e.d["state_after"] = req.state_after
        return req

    # ------------------------------------------------------------------ ops
    def run(self, ops):
        for op in ops:
            self.do(op)
        if self.coalesce:
            self.do(("flush",))
        return self

    def op_flush(self):
        self.flush_segments()

    def do(self, op):
        name = op[0]
        if self.coalesce and name not in ("rx", "flush"):
            self.do(("flush",))              # a segment is a run of consecutive deliveries; it ends here, in a step of its own
        self.step += 1
        self.ops_done.append(op)
        try:
            getattr(self, "op_" + name)(*op[1:])
        finally:
            self.ctx = None
            self.ctx_stack = []
        self.ev(None, "timers", pending=self.timers(),
                states=[(c.idx, self.state_name(c)) for c in self.cur.values()])

    def op_build(self, a):
        c = self.cur.get(a)
        if c is not None and not c.lost:
            self.skipped += 1
            return
        conn = Conn(len(self.conns), a, _addr(a))
        conn.built_step = self.step
        self.push(("build",))
        try:
            conn.proto = self.factory.buildProtocol(conn.addr_obj)
            conn.tr = FakeTransport(self, conn)
            self.conns.append(conn)
            self.cur[a] = conn
            self.ev(conn, "build")
            conn.proto.makeConnection(conn.tr)
        finally:
            self.pop()

    def op_handlers(self, a, mask):
        conn = self.live(a)
        if conn is None:
            self.skipped += 1
            return
        w = self
        conn.handlers = mask
        p = conn.proto

        def on_disc(reason, conn=conn):
            w.ev(conn, "cb", name="onDisconnection", reason=type(getattr(reason, "value", reason)).__name__,
                 robj=reason)

        def on_pub(topic, payload, qos, dup, retain, msgId, conn=conn):
            w.ev(conn, "cb", name="onPublish", topic=topic, payload=payload, qos=qos, dup=dup, retain=retain,
                 msgid=msgId)
            if w.armed:
                w.react(conn, "onPublish")

        def on_made(conn=conn):
            w.ev(conn, "cb", name="onMqttConnectionMade")
            if w.armed:
                w.react(conn, "onMqttConnectionMade")
        p.onDisconnection = on_disc if mask & 1 else None
        p.onPublish = on_pub if mask & 2 else None
        p.onMqttConnectionMade = on_made if mask & 4 else None
        self.ev(conn, "handlers", mask=mask)

    def op_arm(self, a, trigger, action, arg=0):
        """the next time `trigger` happens on address a, the application reacts from inside the callback
        by calling `action` (the usual Twisted style: chaining calls on Deferred callbacks / handlers).
        trigger: 'onPublish' | 'publish_ok' | 'subscribe_ok' | 'connect_ok' | 'onMqttConnectionMade'
        action: 'disconnect' | 'publish' (arg = qos) | 'subscribe' | 'unsubscribe'"""
        self.armed.setdefault(a, []).append([trigger, action, arg])
        self.ev(self.cur.get(a), "arm", trigger=trigger, action=action, arg=arg)

    def react(self, conn, trigger, allow_lost=False):
        lst = self.armed.get(conn.a)
        if not lst or self.cur.get(conn.a) is not conn or (conn.lost and not allow_lost):
            return
        for item in list(lst):
            if item[0] == trigger:
                lst.remove(item)
                _, action, arg = item
                a = conn.a
                self.ev(conn, "react", trigger=trigger, action=action)
                if conn.lost:
                    # reacting to a failure reported by the connection-loss handling: the calls go to the
                    # protocol object the application still holds
                    saved = self.cfg.get("use_lost")
                    self.cfg["use_lost"] = True
                    try:
                        if action == "publish":
                            self.op_publish(a, arg % 3)
                        elif action == "subscribe":
                            self.op_subscribe(a, 0, 1, 1)
                        elif action == "unsubscribe":
                            self.op_unsubscribe(a, 0, 1, 0)
                    finally:
                        self.cfg["use_lost"] = saved
                    return
                if action == "connect":
                    saved = self.cfg.get("reconnect_refused")
                    self.cfg["reconnect_refused"] = True
                    if conn.phase == "connecting":
                        self.set_phase(conn, "refused")
                    try:
                        self.op_connect(a, 0, 1, 0)
                    finally:
                        self.cfg["reconnect_refused"] = saved
                elif action == "disconnect":
                    self.op_disconnect(a)
                elif action == "publish":
                    self.op_publish(a, arg % 3)
                elif action == "subscribe":
                    self.op_subscribe(a, 0, 1, 1)
                elif action == "unsubscribe":
                    self.op_unsubscribe(a, 0, 1, 0)
                return

    def flush_segments(self):
        for a, co in list(self.coalesce.items()):
            del self.coalesce[a]
            conn = self.cur.get(a)
            if not co[1] or not self.can_rx(conn):
                continue
            data = b"".join(d for d, _ in co[1])
            parts = [d for _, d in co[1]]
            desc = ("SEGMENT",) + tuple(d[0] for d in parts) if len(parts) > 1 else parts[0]
            self._deliver_now(conn, data, desc, parts)

    def _deliver_now(self, conn, data, desc, parts):
        self.push(("rx",) + tuple(desc))
        try:
            self.ev(conn, "rx", data=data, desc=desc, nchunks=1, parts=parts)
            try:
                conn.proto.dataReceived(data)
            except CaseTooBig:
                raise
            except Exception as x:  # noqa: BLE001
                self.escape("dataReceived", x)
        finally:
            self.pop()

    def op_coalesce(self, a, n):
        """the next n broker packets for address a arrive in one TCP segment"""
        self.coalesce[a] = [max(2, n), []]

    def op_window(self, a, n):
        conn = self.api_conn(a)
        if conn is None:
            self.skipped += 1
            return
        self.api(conn, "setWindowSize", (n,), lambda r: conn.proto.setWindowSize(n))

    def op_timeout(self, a, t):
        conn = self.api_conn(a)
        if conn is None:
            self.skipped += 1
            return
        self.api(conn, "setTimeout", (t,), lambda r: conn.proto.setTimeout(t))

    def op_bandwidth(self, a, bw, f):
        conn = self.api_conn(a)
        if conn is None:
            self.skipped += 1
            return
        self.api(conn, "setBandwith", (bw, f), lambda r: conn.proto.setBandwith(bw, f))

    def op_connect(self, a, keepalive, clean, extra=0):
        conn = self.api_conn(a)
        if conn is None:
            self.skipped += 1
            return
        if conn.phase == "refused" and not (self.cfg.get("rude") or self.cfg.get("reconnect_refused")):
            # the broker closes after refusing [MQTT-3.2.2-5]; a second CONNECT on that transport is
            # generated only where the property under test is about it (C14)
            self.skipped += 1
            return
        kw = connect_kwargs(self.cfg, conn, keepalive, clean, extra)
        self.connect_kw(conn, kw)

    def connect_kw(self, conn, kw, valid=True):
        fresh = conn.phase in ("new", "refused") and conn.closed is None
        req = self.api(conn, "connect", dict(kw), lambda r: conn.proto.connect(**kw))
        req.valid = valid
        req.fresh = fresh
        if valid and fresh and req.ret == "deferred" and not req.fires:
            self.set_phase(conn, "connecting")
            conn.version = kw["version"]["level"]
            conn.clean = bool(kw["cleanStart"])
            conn.keepalive = kw["keepalive"]
            conn.connect_rid = req.rid
            conn.t_connect = self.now()
        return req

    def op_publish(self, a, qos, size=0, retain=0, topic=0, as_str=0):
        conn = self.api_conn(a)
        if conn is None:
            self.skipped += 1
            return
        rid = len(self.reqs)
        body = ("#%06d#" % rid) + "p" * SIZE_TABLE[size % len(SIZE_TABLE)]
        payload = body if as_str else bytearray(body.encode("ascii"))
        t = TOPICS[topic % len(TOPICS)]
        args = dict(topic=t, qos=qos, retain=bool(retain), payload=body.encode("ascii"), as_str=bool(as_str))
        self.api(conn, "publish", args,
                 lambda r: conn.proto.publish(topic=t, message=payload, qos=qos, retain=bool(retain)))
        if isinstance(payload, bytearray) and len(payload):
            # applications reuse their buffers: what was published is what publish() was given at call time
            payload[:] = b"\xee" * len(payload)

    def publish_raw(self, conn, topic, message, qos, retain, valid):
        args = dict(topic=topic, qos=qos, retain=retain, payload=message, raw=True)
        req = self.api(conn, "publish", args,
                       lambda r: conn.proto.publish(topic=topic, message=message, qos=qos, retain=retain))
        req.valid = valid
        return req

    def op_subscribe(self, a, shape, n=1, qosbits=0):
        conn = self.api_conn(a)
        if conn is None:
            self.skipped += 1
            return
        rid = len(self.reqs)
        n = max(1, min(n, 5)) if n < 100 else min(n, 300)
        if shape in (0, 1):
            n = 1
        topics = [("s%06d/%d%s" % (rid, j, "ñ" if (qosbits >> 7) & 1 else ""), (qosbits >> (2 * j)) % 3)
                  for j in range(n)]
        args = dict(shape=shape, topics=topics)
        if shape == 0:
            fn = lambda r: conn.proto.subscribe(topics[0][0], topics[0][1])  # noqa: E731
        elif shape == 1:
            fn = lambda r: conn.proto.subscribe((topics[0][0], topics[0][1]))  # noqa: E731
        else:
            given = list(topics)
            fn = lambda r: conn.proto.subscribe(given)  # noqa: E731
        self.api(conn, "subscribe", args, fn)
        if shape not in (0, 1):
            # the list belongs to the application, which goes on using it: what was asked is what it held at call time
            given[:] = [("changed/afterwards", 0)] * (len(given) + 1)

    def op_unsubscribe(self, a, shape, n=1, variant=0):
        conn = self.api_conn(a)
        if conn is None:
            self.skipped += 1
            return
        rid = len(self.reqs)
        n = max(1, min(n, 5))
        if shape == 0:
            n = 1
        topics = ["u%06d/%d%s" % (rid, j, "ñ" if variant & 1 else "") for j in range(n)]
        args = dict(shape=shape, topics=topics)
        if shape == 0:
            fn = lambda r: conn.proto.unsubscribe(topics[0])  # noqa: E731
        else:
            given = list(topics)
            fn = lambda r: conn.proto.unsubscribe(given)  # noqa: E731
        self.api(conn, "unsubscribe", args, fn)
        if shape != 0:
            given[:] = ["changed/afterwards"] * (len(given) + 1)

    def op_disconnect(self, a):
        conn = self.api_conn(a)
        if conn is None:
            self.skipped += 1
            return
        self.api(conn, "disconnect", (), lambda r: conn.proto.disconnect())

    def op_call(self, a, name, args=(), kwargs=None, expect=None):
        """C20: call an API entry point with arbitrary arguments; `expect` is the table's verdict"""
        conn = self.api_conn(a)
        if conn is None:
            self.skipped += 1
            return
        args = [from_spec(x) for x in args]
        kwargs = dict((k, from_spec(v)) for k, v in (kwargs or {}).items())
        fn = getattr(conn.proto, name)
        req = self.api(conn, name, dict(args=spec_brief(args), kwargs=spec_brief(kwargs), call=True), lambda r: fn(*args, **kwargs))
        req.expect = expect
        req.call = True
        if name == "connect" and req.ret == "deferred" and not req.fires and conn.phase in ("new",) and conn.closed is None:
            self.set_phase(conn, "connecting")
            v = kwargs.get("version", boot.v311)
            conn.version = v.get("level", 4) if isinstance(v, dict) else 4
            conn.clean = bool(kwargs.get("cleanStart", True))
            conn.keepalive = kwargs.get("keepalive", 0)
            conn.connect_rid = req.rid
            conn.t_connect = self.now()
            req.valid, req.fresh = True, True

    # --- broker -> client
    def can_rx(self, conn):
        return conn is not None and not conn.lost and conn.closed is None

    def deliver(self, conn, data, desc, cuts=None, hold=True):
        """hand bytes to dataReceived, optionally cut into chunks at the given offsets"""
        data = bytes(data)
        parts = None
        co = self.coalesce.get(conn.a)
        if co is not None and not cuts and hold:
            co[1].append((data, desc))
            self.ev(conn, "held_for_segment", desc=desc)
            if len(co[1]) < co[0]:
                return
            del self.coalesce[conn.a]
            data = b"".join(d for d, _ in co[1])
            parts = [d for _, d in co[1]]
            desc = ("SEGMENT",) + tuple(d[0] for d in parts)
        chunks = []
        if cuts:
            last = 0
            for c in sorted(set(x for x in cuts if 0 < x < len(data))):
                chunks.append(data[last:c])
                last = c
            chunks.append(data[last:])
        else:
            chunks = [data]
        self.push(("rx",) + tuple(desc))
        try:
            e_rx = self.ev(conn, "rx", data=data, desc=desc, nchunks=len(chunks),
                           parts=parts if desc and desc[0] == "SEGMENT" else [desc])
            if desc and desc[0] == "RAW":
                e_rx.d["outstanding"] = getattr(self, "raw_outstanding", None)
            for ch in chunks:
                if conn.lost:
                    break
                try:
                    conn.proto.dataReceived(ch)
                except CaseTooBig:
                    raise
                except Exception as x:  # noqa: BLE001
                    self.escape("dataReceived", x)
        finally:
            self.pop()

    def _unknown_id(self, x):
        """an id the client has never issued (independent of how far its counter has got)"""
        i = 30000 + (x % 50)
        fid = getattr(self.factory, "id", 0)
        fid = fid if isinstance(fid, int) else 0
        while i in self.ids_seen or abs(i - fid) < 300:
            i = i % 65535 + 1 + 997
            i = (i - 1) % 65535 + 1
        return i

    def _sel(self, cands, sel, x, last, allow_dup=True):
        """-> id or None.  sel: 0 oldest, 1 newest, 2 x-th, 3 duplicate of the last answered,
        4 an id never issued"""
        if sel == 4:
            return self._unknown_id(x)
        if sel == 3:
            return last if allow_dup else None
        if not cands:
            return None
        if sel == 0:
            return cands[0]
        if sel == 1:
            return cands[-1]
        return cands[x % len(cands)]

    def op_rx(self, a, kind, sel=0, x=0, y=0, cuts=None):
        conn = self.live(a)
        if not self.can_rx(conn):
            self.skipped += 1
            return
        ver = conn.version or R.V311
        if kind != "CONNACK" and conn.phase != "connected" and not self.cfg.get("rude"):
            # a broker's first packet is CONNACK [MQTT-3.2.0-1]; after refusing it closes
            self.skipped += 1
            return
        if kind == "CONNACK" and conn.phase not in ("connecting", "connected") and not self.cfg.get("rude"):
            self.skipped += 1
            return
        if kind == "CONNACK":
            data = R.ref_encode("CONNACK", dict(session_present=bool(x & 1), code=sel), ver)
            desc = ("CONNACK", sel, x & 1)
            was = conn.phase
            if was == "connecting":
                # harness view of the handshake, updated before the delivery so that calls the application
                # makes from inside the CONNACK callbacks are judged against the new phase
                if sel == 0:
                    self.set_phase(conn, "connected")
                    conn.t_connack = self.now()
                    if conn.clean:
                        self.in_q2[a].clear()
                else:
                    self.set_phase(conn, "refused")
            self.deliver(conn, data, desc, cuts, hold=False)     # the handshake is never held back in a segment
            return
        if kind == "PINGRESP":
            out = bool(conn.b_ping)
            if conn.b_ping:
                conn.b_ping = 0          # one PINGRESP answers the (single) PINGREQ the client waits for
            self.deliver(conn, R.ref_encode("PINGRESP", {}, ver), ("PINGRESP", out), cuts)
            return
        if kind in ("PUBACK", "PUBREC", "PUBCOMP", "UNSUBACK", "SUBACK"):
            if kind == "SUBACK":
                cands = list(conn.b_sub)
            else:
                cands = {"PUBACK": conn.b_q1, "PUBREC": conn.b_q2, "PUBCOMP": conn.b_rel,
                         "UNSUBACK": conn.b_unsub}[kind]
            if sel == 7:       # an id of the same kind that is outstanding on the OTHER address of the factory
                oc = self.cur.get(1 - a)
                ol = []
                if oc is not None and not oc.lost:
                    ol = {"PUBACK": oc.b_q1, "PUBREC": oc.b_q2, "PUBCOMP": oc.b_rel, "SUBACK": list(oc.b_sub),
                          "UNSUBACK": oc.b_unsub}[kind]
                    ol = [i_ for i_ in ol if i_ not in cands]
                i = ol[x % len(ol)] if ol else None
            elif sel == 6:     # the id of a request of ANOTHER kind that is outstanding right now
                others = []
                for kk, lst in (("PUBACK", conn.b_q1), ("PUBREC", conn.b_q2), ("PUBCOMP", conn.b_rel),
                                ("SUBACK", list(conn.b_sub)), ("UNSUBACK", conn.b_unsub)):
                    if kk != kind and not (kind in ("PUBACK", "PUBREC", "PUBCOMP") and kk in ("PUBACK", "PUBREC", "PUBCOMP")):
                        others += list(lst)
                i = others[x % len(others)] if others else None
            elif kind == "PUBCOMP" and sel == 5:   # PUBCOMP before PUBREC
                i = conn.b_q2[x % len(conn.b_q2)] if conn.b_q2 else None
            else:
                i = self._sel(cands, sel if sel != 5 else 0, x, conn.last_ans.get(kind))
            if i is None:
                self.skipped += 1
                return
            f = dict(id=i)
            if kind == "SUBACK":
                if y == 0 and i in conn.b_sub:
                    n = conn.b_sub[i]
                    codes = [[0, 1, 2, 0x80][(x >> (2 * (j % 8))) & 3] for j in range(n)]
                else:
                    n = y % 9
                    codes = [[0, 1, 2, 0x80][((x * 7 + y) >> (2 * j)) & 3] for j in range(n)]
                f["codes"] = codes
            solicited = (sel not in (3, 4, 5, 6, 7)) or (sel == 3 and i in cands)
            if solicited:
                if kind == "SUBACK":
                    conn.b_sub.pop(i, None)
                else:
                    if i in cands:
                        cands.remove(i)
                conn.last_ans[kind] = i
            data = R.ref_encode(kind, f, ver)
            self.deliver(conn, data, (kind, i, tuple(f.get("codes", ())), sel), cuts)
            return
        if kind == "PUBLISH":
            # sel = qos, x = flags: bit0 retain, bit1 dup, bits2-3 topic, bits 4-6 size class
            # y = id choice from a pool of three (reuse is the point)
            qos = sel % 3
            retain, dup = bool(x & 1), bool(x & 2)
            topic = TOPICS[(x >> 2) & 3]
            size = [0, 1, 100, 200, 20000, 100000, 3, 2100000 if self.cfg.get("big") else 17][(x >> 4) & 7]
            pid = None
            self.in_seq += 1
            payload = ("<%06d>" % self.in_seq).encode() + b"q" * size
            if qos:
                pid = 1 + (y % 3) if y < 250 else (65535 if y < 1000 else (y - 1000) % 65535 + 1)
                if qos == 2 and pid in self.in_q2[a]:
                    topic, payload, retain = self.in_q2[a][pid]      # a broker repeats the same message
                    dup = True
                elif qos == 2:
                    self.in_q2[a][pid] = (topic, payload, retain)
            f = dict(topic=topic, payload=payload, qos=qos, dup=dup if qos else False, retain=retain, id=pid)
            self.deliver(conn, R.ref_encode("PUBLISH", f, ver), ("PUBLISH", qos, pid, f["dup"], retain,
                                                                  topic, payload), cuts)
            return
        if kind == "PUBREL":
            pend = list(self.in_q2[a])
            i = self._sel(pend, sel, x, self.in_last_rel[a])
            if i is None:
                self.skipped += 1
                return
            if i in self.in_q2[a]:
                del self.in_q2[a][i]
                self.in_last_rel[a] = i
            self.deliver(conn, R.ref_encode("PUBREL", dict(id=i, dup=bool(y & 1)), ver),
                         ("PUBREL", i, sel), cuts)
            return
        raise ValueError(kind)

    def op_raw(self, a, data, cuts=None):
        conn = self.live(a)
        if not self.can_rx(conn):
            self.skipped += 1
            return
        if isinstance(data, str):
            data = bytes.fromhex(data)
        self.raw_outstanding = dict(PUBACK=list(conn.b_q1), PUBREC=list(conn.b_q2), PUBCOMP=list(conn.b_rel),
                                    SUBACK=list(conn.b_sub), UNSUBACK=list(conn.b_unsub))
        self.deliver(conn, data, ("RAW",), cuts)

    # --- time
    def _fire_instant(self, limit=None):
        """run every delayed call due at the earliest pending instant (<= limit). -> True if ran"""
        calls = REACTOR.getDelayedCalls()
        if not calls:
            return False
        t = min(c.getTime() for c in calls)
        if limit is not None and t > limit:
            return False
        if t > self.T_MAX:
            # beyond ~30 years of virtual time float resolution can no longer separate "now" from
            # "now + a retry interval"; such timers count as out of reach
            return False
        clock = REACTOR.clock
        # a reactor always runs a delayed call a little late, never exactly on time; without that
        # LoopingCall's "time until the next interval" can round to a few ulps and fire twice
        if t + self.late > clock.rightNow:
            clock.rightNow = t + self.late
        self.t_nom = max(self.t_nom, t)
        REACTOR.in_pass = True
        try:
            clock.advance(0)
        finally:
            REACTOR.in_pass = False
        return True

    def op_late(self, code):
        """from now on the reactor is this late when it gets round to its delayed calls (a busy process):
        calls due within the lateness of the earliest one run in the same pass, in order of their times"""
        self.late = LATE_TABLE[code % len(LATE_TABLE)]
        self.max_late = max(self.max_late, self.late)
        self.ev(None, "late", late=self.late)

    def op_advance(self, code):
        dt = ADVANCE_TABLE[code % len(ADVANCE_TABLE)] if isinstance(code, int) else float(code)
        # relative to the time asked for so far, not to the clock: the clock is ahead of it by the lateness
        # of the last timer pass, and whether a history fired a timer earlier must not shift later targets
        target = self.t_nom + dt
        n = 0
        while self._fire_instant(target):
            n += 1
            if n > self.MAX_FIRINGS:
                self.budget_hit = True
                break
        if REACTOR.clock.rightNow < target:
            REACTOR.clock.rightNow = target
        REACTOR.clock.advance(0)
        self.t_nom = max(self.t_nom, target)

    def op_fire(self, n=1):
        for _ in range(max(1, n)):
            if not self._fire_instant():
                break

    def op_lose(self, a, reason=0):
        conn = self.cur.get(a)
        if conn is None or conn.lost:
            self.skipped += 1
            return
        self._lose(conn, reason)

    def _lose(self, conn, reason):
        exc = LOSS_REASONS[reason % len(LOSS_REASONS)]()
        conn.lost = True
        conn.lost_step = self.step
        conn.lost_t = self.now()
        conn.lost_reason = exc
        conn.phase_at_loss = conn.phase
        conn.tr.connected = False
        self.push(("lose", type(exc).__name__))
        try:
            self.ev(conn, "lost", reason=type(exc).__name__, robj=exc, phase=conn.phase)
            conn.phase = "lost"
            try:
                conn.proto.connectionLost(_failure.Failure(exc))
            except CaseTooBig:
                raise
            except Exception as x:  # noqa: BLE001
                self.escape("connectionLost", x)
        finally:
            self.pop()

    def op_settle(self, a, rounds=300):
        """the broker answers everything it has been sent, until nothing is outstanding"""
        for _ in range(rounds):
            conn = self.live(a)
            if not self.can_rx(conn) or conn.phase != "connected":
                return
            todo = []
            todo += [("PUBACK", i) for i in conn.b_q1]
            todo += [("PUBREC", i) for i in conn.b_q2]
            todo += [("PUBCOMP", i) for i in conn.b_rel]
            todo += [("SUBACK", i) for i in conn.b_sub]
            todo += [("UNSUBACK", i) for i in conn.b_unsub]
            todo += [("PUBREL", i) for i in self.in_q2[a]]
            if conn.b_ping:
                todo.append(("PINGRESP", None))
            if not todo:
                return
            for kind, i in todo:
                if not self.can_rx(conn):
                    return
                if kind == "PINGRESP":
                    self.op_rx(a, "PINGRESP")
                elif kind == "PUBREL":
                    pend = list(self.in_q2[a])
                    if i in pend:
                        self.op_rx(a, "PUBREL", 2, pend.index(i))
                else:
                    cands = list(conn.b_sub) if kind == "SUBACK" else \
                        {"PUBACK": conn.b_q1, "PUBREC": conn.b_q2, "PUBCOMP": conn.b_rel,
                         "UNSUBACK": conn.b_unsub}[kind]
                    if i in cands:
                        self.op_rx(a, kind, 2, list(cands).index(i))

    def op_idle(self, seconds=5000.0):
        """long stretch of virtual time; a transport the client closed or aborted reports the loss
        (as every real transport eventually does)"""
        target = self.t_nom + float(seconds)
        n = 0
        while True:
            for conn in list(self.cur.values()):
                if not conn.lost and conn.closed is not None:
                    self._lose(conn, 2 if conn.closed == "abort" else 0)
            if not self._fire_instant(target):
                break
            n += 1
            if n > self.MAX_FIRINGS:
                self.budget_hit = True
                break
        if REACTOR.clock.rightNow < target:
            REACTOR.clock.rightNow = target
        self.t_nom = max(self.t_nom, target)

    def op_setid(self, value):
        """C17: place the factory's packet-id counter (guarded: skipped when the attribute is gone)"""
        if isinstance(getattr(self.factory, "id", None), int):
            self.factory.id = value
            self.ev(None, "setid", value=value)
        else:
            self.ev(None, "setid_skipped")

    def op_walk(self, a, n, qos=1):
        """C17: n acknowledged QoS 1/2 publishes in a row (enough to wrap the 16-bit counter on its
        own); logging is suspended, the walk records its own findings: every id handed out must be in
        1..65535 and differ from the id of every request that is unfinished at that moment"""
        conn = self.live(a)
        if not self.can_rx(conn) or conn.phase != "connected" or not (self.cfg["profile"] & 2):
            self.skipped += 1
            return
        ver = conn.version or R.V311
        unfinished = {}
        for r in self.reqs:
            if r.ret == "deferred" and not r.fires and isinstance(r.msgid, int) and r.kind in ("publish", "subscribe", "unsubscribe"):
                unfinished[r.msgid] = r.rid
        bad = []
        done = 0
        wrapped = False
        last = None
        blocked = False
        res = []
        quiet_from = len(self.log)
        self.quiet = True
        try:
            for i in range(n):
                d = conn.proto.publish(topic="w", message=bytearray(b"walk"), qos=qos)
                mid = getattr(d, "msgId", None)
                res[:] = []
                d.addCallbacks(lambda v: res.append(("ok", v)), lambda f: res.append(("err", f.value)))
                if not (isinstance(mid, int) and 1 <= mid <= 65535):
                    bad.append(("range", mid, None))
                    break
                if mid in unfinished:
                    bad.append(("reused", mid, unfinished[mid]))
                    break
                if last is not None and mid < last:
                    wrapped = True
                last = mid
                if res:
                    bad.append(("failed", mid, repr(res[0][1])[:80]))
                    break
                if qos == 1:
                    conn.proto.dataReceived(R.ref_encode("PUBACK", dict(id=mid), ver))
                else:
                    conn.proto.dataReceived(R.ref_encode("PUBREC", dict(id=mid), ver))
                    conn.proto.dataReceived(R.ref_encode("PUBCOMP", dict(id=mid), ver))
                if not res:
                    blocked = True      # held back behind older requests: stop, the walk needs a free window
                    unfinished[mid] = -1
                    break
                done += 1
        finally:
            self.quiet = False
            for lst in (conn.b_q1, conn.b_q2, conn.b_rel):
                del lst[:]
        self.ev(conn, "walk", done=done, bad=bad, wrapped=wrapped, blocked=blocked,
                unfinished=sorted(unfinished)[:8], n_unfinished=len(unfinished))

    def op_pingrun(self, a, periods, klass=0):
        """C15: run `periods` keepalive periods; klass 0: answer each PINGREQ at once, 1: answer just
        before its deadline, 2: answer every second one only, 3: answer twice"""
        conn = self.live(a)
        if not self.can_rx(conn) or conn.phase != "connected" or not conn.keepalive:
            self.skipped += 1
            return
        k = conn.keepalive
        for i in range(periods):
            if not self.can_rx(conn):
                return
            if conn.b_ping:
                if klass == 1:
                    self.op_advance(k * 0.999 if k < 1000 else float(k) - 1.0)
                if klass != 2 or i % 2 == 0:
                    if self.can_rx(conn):
                        self.op_rx(a, "PINGRESP")
                    if klass == 3 and self.can_rx(conn):
                        self.op_rx(a, "PINGRESP")
            if not self._fire_instant():
                return

    def op_retrytail(self, a, need=3, budget=400):
        """C08 bounded liveness: let timers fire (answering pings so that keepalive does not end the
        connection) until every packet the broker still has outstanding has been seen `need` more
        times, or the budget of timer instants is used up.  Records its own observation."""
        conn = self.live(a)
        if not self.can_rx(conn) or conn.phase != "connected":
            self.ev(None, "retrytail", tracked=0, short=[], inconclusive=0)
            return
        from .facts import marker_of

        def outstanding():
            ks = set()
            for i in conn.b_q1 + conn.b_q2:
                ks.add(("PUBLISH", i))
            for i in conn.b_rel:
                ks.add(("PUBREL", i))
            for i in conn.b_sub:
                ks.add(("SUBSCRIBE", i))
            for i in conn.b_unsub:
                ks.add(("UNSUBSCRIBE", i))
            return ks
        # only what the client still owes: requests whose Deferred has not fired
        owed = set(r.msgid for r in self.reqs if r.ret == "deferred" and not r.fires and isinstance(r.msgid, int))
        track = set(k for k in outstanding() if k[1] in owed)
        start = len(conn.frames)
        n = 0
        counts = dict((k, 0) for k in track)
        while n < budget:
            if not self._fire_instant():
                break
            n += 1
            if not self.can_rx(conn):
                break
            while conn.b_ping:
                self.op_rx(a, "PINGRESP")
            counts = dict((k, 0) for k in track)
            for fr in conn.frames[start:]:
                key = (fr[1], fr[2].get("id") if isinstance(fr[2], dict) else None)
                if key in counts:
                    counts[key] += 1
            if all(v >= need for v in counts.values()):
                break
        alive = self.can_rx(conn) and conn.phase == "connected"
        short = []
        inconclusive = 0
        if alive:
            no_timers = not REACTOR.getDelayedCalls()
            for key, v in counts.items():
                if v < need:
                    if no_timers or (n >= budget and not conn.keepalive and len(track) * need * 4 < budget and
                                     self.now() - conn.t_connack > 1e7):
                        pass
                    if no_timers:
                        # nothing can ever fire again: the packet will never be resent
                        rid = None
                        short.append((key[0], key[1], v, need))
                    else:
                        inconclusive += 1
        self.ev(None, "retrytail", tracked=len(track), short=short, inconclusive=inconclusive, instants=n)

    def finish(self):
        """tear the world down so nothing outlives the case"""
        self.timers_final = self.timers()
        for c in REACTOR.getDelayedCalls():
            try:
                c.cancel()
            except Exception:  # noqa: BLE001
                pass
        for conn in self.conns:
            try:
                t = conn.proto._pingReq.timer
                if t is not None and t.running:
                    t.stop()
            except Exception:  # noqa: BLE001
                pass
        LOGTAP.sink = None
        REACTOR.sink = None


def from_spec(x):
    """argument values in op lists are JSON-able specs: ["str", unit, nbytes] builds a long string,
    ["ba", hex] a bytearray, ["bytes", hex], ["tuple", [...]], ["set", [...]], ["v31"], ["v311"], ["float", x]"""
    if isinstance(x, (list, tuple)) and x and isinstance(x[0], str) and x[0].startswith("@"):
        t = x[0]
        if t == "@str":
            from .codec import fill
            return fill(x[1], x[2])
        if t == "@ba":
            return bytearray(bytes.fromhex(x[1]))
        if t == "@bytes":
            return bytes.fromhex(x[1])
        if t == "@tuple":
            return tuple(from_spec(v) for v in x[1])
        if t == "@list":
            return [from_spec(v) for v in x[1]]
        if t == "@set":
            return set(from_spec(v) for v in x[1])
        if t == "@dict":
            return dict((k, from_spec(v)) for k, v in x[1])
        if t == "@v31":
            return boot.v31
        if t == "@v311":
            return boot.v311
        if t == "@float":
            return float(x[1])
        if t == "@none":
            return None
        raise ValueError(t)
    return x


def spec_brief(v):
    if isinstance(v, dict):
        return dict((k, spec_brief(x)) for k, x in v.items())
    if isinstance(v, (list, tuple)):
        return [spec_brief(x) for x in v]
    if isinstance(v, str) and len(v) > 40:
        return "%s..(%d chars, %d bytes)" % (v[:12], len(v), len(v.encode("utf-8")))
    if isinstance(v, (bytes, bytearray)) and len(v) > 40:
        return "%s(%d bytes)" % (type(v).__name__, len(v))
    if isinstance(v, (set, frozenset)):
        return sorted(repr(x) for x in v)
    return v


def _short(v):
    if isinstance(v, (list, tuple)):
        return [_short(x) for x in v]
    if isinstance(v, (int, bool, type(None), str, float)):
        return v
    return repr(v)[:60]


def connect_kwargs(cfg, conn, keepalive, clean, extra=0):
    level = cfg.get("version", 4)
    if (extra & 0x80) and cfg.get("flip_version"):
        level = 7 - level      # this connection speaks the other protocol version (an application falling back / upgrading)
    ver = boot.v31 if level == 3 else boot.v311
    kw = dict(clientId="cid-%d" % conn.idx, keepalive=keepalive, cleanStart=bool(clean), version=ver)
    if extra & 1:
        kw.update(willTopic="will/té", willMessage="bye€", willQoS=(extra >> 3) % 3,
                  willRetain=bool(extra & 64))
    if extra & 2:
        kw.update(username="usér")
        if extra & 4:
            kw.update(password="pñss")
    return kw


def run_case(cfg, ops):
    w = World(cfg)
    try:
        w.run(ops)
    except CaseTooBig:
        w.too_big = True
    finally:
        w.finish()
    return w
