import os
import sys


def main(argv):
    if not argv:
        sys.stderr.write("usage: check <ID> [--tier quick|thorough] [--replay file]\n")
        return 2
    pid = argv[0]
    tier = os.environ.get("VERIF_TIER") or "quick"
    replay = None
    i = 1
    while i < len(argv):
        if argv[i] == "--tier":
            tier = argv[i + 1]
            i += 2
        elif argv[i] == "--replay":
            replay = argv[i + 1]
            i += 2
        else:
            sys.stderr.write("unknown argument %r\n" % argv[i])
            return 2
    if tier not in ("quick", "thorough"):
        tier = "quick"
    try:
        seed = int(os.environ.get("VERIF_SEED", "1"))
    except ValueError:
        seed = 1
    try:
        from . import boot  # noqa: F401  (virtual reactor before anything else)
        from . import core
    except SystemExit:
        raise
    except Exception as e:  # noqa: BLE001
        import traceback
        traceback.print_exc()
        sys.stderr.write("HARNESS-ERROR cannot import the tree under test: %r\n" % (e,))
        return 2
    try:
        return core.run_property(pid, tier, seed, replay)
    except KeyError as e:
        sys.stderr.write("HARNESS-ERROR unknown property %r\n" % (e,))
        return 2
    except Exception:  # noqa: BLE001
        import traceback
        traceback.print_exc()
        sys.stderr.write("HARNESS-ERROR\n")
        return 2


if __name__ == "__main__":
    sys.exit(main(sys.argv[1:]))
