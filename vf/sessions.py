"""
Session-level properties (C03..C20): generators, exhaustive small scopes and the runner glue.
The monitors themselves live in vf/monitors.py.
"""
import itertools
import json
import os
import sys

from hypothesis import given, seed as hseed, settings, HealthCheck, Phase, strategies as st

from . import gens as G
from . import sim
from . import refcodec as R
from .core import Prop, ShardResult, Verdict, NPROC, ddmin
from .facts import Facts
from . import monitors as M


def tup(x):
    if isinstance(x, list):
        return tuple(tup(v) for v in x)
    return x


class SessionProp(Prop):
    """A property decided by running generated (cfg, ops) cases through the scenario executor and
    judging the observation log with one monitor."""
    id = None
    monitor = None
    table = None
    profiles = (1, 2, 3)
    max_words = 40
    quick_examples = 1500
    thorough_examples = 40000
    naddr = 1
    tail = ()
    pre_kwargs = {}
    assumptions = [
        "transport model vf/sim.py FakeTransport mirrors Twisted TCP: no data delivered after "
        "loseConnection/abortConnection, writes flushed after loseConnection and dropped after "
        "abortConnection, connectionLost reported by a later step",
        "the broker speaks through the reference codec vf/refcodec.py only",
        "time is a harness-owned task.Clock installed as the global reactor; back-off jitter is a "
        "per-case constant",
    ]

    # ---- case construction
    tables = None     # a mixture: one table drawn per case
    cfg_extra = {}    # harness switches for every generated case of this property

    def strategy(self, tier):
        tbs = self.tables or [self.table]
        naddr = self.naddr
        tail = list(self.tail)

        extra = dict(self.cfg_extra)

        def mk(cfg, pre, ti, ws):
            ops = G.preamble(cfg, pre) + tbs[ti % len(tbs)].decode(ws, naddr) + tail
            return (dict(cfg, **extra) if extra else cfg, ops)
        return st.builds(mk, G.cfg_strategy(self.profiles), G.pre_strategy(**self.pre_kwargs), st.integers(0, len(tbs) - 1),
                         G.words(self.max_words if tier == "quick" else self.max_words * 2, naddr=naddr))

    def exhaustive_specs(self, tier, seed):
        return []

    def run_exhaustive(self, spec, res):
        return res

    # ---- judging
    def check_case(self, case):
        cfg, ops = case
        ops = [tup(o) for o in ops]
        w = sim.run_case(dict(cfg), ops)
        vd = Verdict()
        if w.too_big:
            vd.label("case_aborted_too_many_events")
            return vd
        F = Facts(w)
        self.monitor(w, F, vd)
        if w.budget_hit:
            vd.label("budget_hit")
        return vd

    def case_to_json(self, case):
        cfg, ops = case
        return {"cfg": cfg, "ops": [list(o) for o in ops]}

    def case_from_json(self, j):
        return (j["cfg"], [tup(o) for o in j["ops"]])

    def shards(self, tier, seed):
        n = self.quick_examples if tier == "quick" else self.thorough_examples
        specs = [("gen", tier, seed * 1000 + i, n) for i in range(NPROC)]
        return self.exhaustive_specs(tier, seed) + specs

    def run_shard(self, spec):
        res = ShardResult()
        if spec[0] == "gen":
            _, tier, sd, n = spec
            if n is None:
                n = self.quick_examples if tier == "quick" else self.thorough_examples
            prop = self

            @hseed(sd)
            @settings(max_examples=n, database=None, deadline=None, phases=[Phase.generate],
                      suppress_health_check=list(HealthCheck), report_multiple_bugs=False)
            @given(self.strategy(tier))
            def run(case):
                vd = prop.check_case(case)
                res.add("generated", case, vd)
            run()
            return res
        return self.run_exhaustive(spec, res)

    def shrink(self, case, rule):
        cfg, ops = case
        ops = list(ops)

        def fails(o):
            return any(v.rule == rule for v in self.check_case((cfg, o)).viols)
        small = ddmin(ops, fails, budget=1200)
        # simplify cfg
        for k, v in (("jitter", 0.25), ("version", 4)):
            if cfg.get(k) != v:
                c2 = dict(cfg)
                c2[k] = v
                try:
                    if any(x.rule == rule for x in self.check_case((c2, small)).viols):
                        cfg = c2
                except Exception:  # noqa: BLE001
                    pass
        return (cfg, small)

    # ---- exhaustive helper: all sequences over an alphabet up to length n, sharded by first ops
    def product_specs(self, name, cfgs, pre, alphabet, maxlen, tail, nsplit=2):
        specs = []
        heads = [()]
        for _ in range(min(nsplit, maxlen)):
            heads = [h + (i,) for h in heads for i in range(len(alphabet))]
        for ci in range(len(cfgs)):
            specs.append(("prod", name, ci, (), 0, min(nsplit, maxlen) - 1))        # short sequences
            for h in heads:
                specs.append(("prod", name, ci, h, len(h), maxlen))
        return specs

    def run_product(self, spec, res, cfgs, pre, alphabet, tail):
        _, name, ci, head, lo, hi = spec
        cfg = cfgs[ci]
        n = 0
        headops = [alphabet[i] for i in head]
        for ln in range(max(lo, len(head)), hi + 1):
            for rest in itertools.product(alphabet, repeat=ln - len(head)):
                ops = list(pre) + [o for grp in headops for o in grp] + [o for grp in rest for o in grp] + list(tail)
                case = (cfg, ops)
                vd = self.check_case(case)
                res.add("exhaustive:" + name, case, vd)
                n += 1
        key = "%s/cfg%d" % (name, ci)
        res.exhaustive[key + "/" + "".join(str(i) for i in head)] = n
        return res


# ====================================================================== property definitions

T_PUB = G.Table([
    (16, G.o_publish), (4, G.o_publish_q12), (8, G.o_puback), (8, G.o_pubrec), (8, G.o_pubcomp),
    (3, G.o_fire), (3, G.o_advance_small), (2, G.o_window), (1, G.o_timeout), (1, G.o_lose_reconnect_persist),
    (1, G.o_lose_reconnect_clean), (1, G.o_settle), (2, G.o_arm), (2, G.o_segment),
])


class C05(SessionProp):
    id = "C05"
    monitor = staticmethod(M.mon_c05)
    table = T_PUB
    profiles = (2, 3)
    rule = ("Histories: preamble (build, handlers, window 1..16, timeout, connect, CONNACK) + up to 40/80 "
            "generated ops over publish at mixed QoS, PUBACK/PUBREC/PUBCOMP with selector oldest/newest/k-th/"
            "duplicate/unknown-id/PUBCOMP-before-PUBREC, timer expiries, window changes, loss+reconnect; plus "
            "all sequences up to length 6 over a 9-op alphabet with windows 1 and 2 (exhaustive). Oracle: "
            "per-request history invariant (fires once; QoS 0 in the call; QoS 1 only inside the delivery of a "
            "PUBACK with its id after its first transmission; QoS 2 only inside a PUBCOMP after a PUBREC; "
            "unsolicited acks change nothing; msgId == wire id == callback value). Non-trivial = history has "
            "an out-of-order, duplicate or unknown ack, mixed QoS in the window, or an expiry between PUBLISH "
            "and ack; distinct = distinct case hash.")

    EX_ALPHA = [
        [("publish", 0, 0)], [("publish", 0, 1)], [("publish", 0, 2)],
        [("rx", 0, "PUBACK", 0, 0, 0), ("rx", 0, "PUBREC", 0, 0, 0)],     # ack oldest (whichever kind fits)
        [("rx", 0, "PUBACK", 1, 0, 0), ("rx", 0, "PUBREC", 1, 0, 0)],     # ack newest
        [("rx", 0, "PUBCOMP", 0, 0, 0)],
        [("rx", 0, "PUBACK", 3, 0, 0), ("rx", 0, "PUBREC", 3, 0, 0), ("rx", 0, "PUBCOMP", 3, 0, 0)],   # duplicates
        [("rx", 0, "PUBACK", 4, 0, 0), ("rx", 0, "PUBCOMP", 5, 0, 0)],    # unknown id, PUBCOMP before PUBREC
        [("fire", 1)],
    ]

    def ex_parts(self):
        cfgs = [dict(profile=2, version=4, jitter=0.25), dict(profile=3, version=3, jitter=0.0)]
        return cfgs

    def exhaustive_specs(self, tier, seed):
        specs = []
        maxlen = 5 if tier == "quick" else 6
        for wnd in (1, 2):
            specs += self.product_specs("w%d" % wnd, self.ex_parts(), None, self.EX_ALPHA, maxlen, None, nsplit=2)
        return specs

    def run_exhaustive(self, spec, res):
        wnd = int(spec[1][1:])
        pre = G.preamble({}, dict(window=wnd, handlers=7))
        return self.run_product(spec, res, self.ex_parts(), pre, self.EX_ALPHA, [("settle", 0), ("idle", 50)])


def o_burst(ad, a, b, c):
    # far more messages than the window lets through, then a broker that answers everything
    n = [300, 520][a & 1] if b < 64 else 18 + a % 24
    ops = [("window", ad, [1, 4, 16, 3][c % 4])]
    for j in range(n):
        ops.append(("publish", ad, ((a >> 1) + j * (1 + (c >> 2) % 3)) % 3, 0, (c >> 4) & 1, 0 if c & 32 else j % 2, 0))
    return ops + [("settle", ad)] * (1 + n // 100)


T_PUBWIN = G.Table([
    (20, G.o_publish), (6, G.o_puback), (6, G.o_pubrec), (6, G.o_pubcomp), (4, G.o_ack_good), (4, G.o_window),
    (2, G.o_fire), (1, G.o_advance_small), (2, G.o_lose_reconnect_persist), (1, G.o_lose_reconnect_clean),
    (1, G.o_reconnect_noack), (1, G.o_connack_ok), (1, G.o_settle), (2, G.o_resume_with_publish), (2, G.o_arm),
    (1, o_burst),
])


class C10(SessionProp):
    id = "C10"
    monitor = staticmethod(M.mon_c10)
    table = T_PUBWIN
    profiles = (2, 3)
    max_words = 50
    rule = ("Histories over publish at mixed QoS (bursts of up to 520 messages behind a window of 1..16), acks in any order, window changes 1..16 at any "
            "time, timer expiries, loss + persistent/clean reconnect (resumed in-flight packets); plus all "
            "sequences up to length 6/7 over {pub q0,q1,q2, ack oldest, ack newest, PUBCOMP, window:=1,2,3} "
            "(exhaustive). Oracle after every step: in-flight bound at each first transmission, publish never "
            "rejected, first transmissions once each and in publish() order across QoS, nothing unsent while "
            "connected with no exchange outstanding. Non-trivial = a message was held back and QoS levels are "
            "mixed or the window changed with packets in flight.")

    EX_ALPHA = [
        [("publish", 0, 0)], [("publish", 0, 1)], [("publish", 0, 2)],
        [("rx", 0, "PUBACK", 0, 0, 0), ("rx", 0, "PUBREC", 0, 0, 0)],
        [("rx", 0, "PUBACK", 1, 0, 0), ("rx", 0, "PUBREC", 1, 0, 0)],
        [("rx", 0, "PUBCOMP", 0, 0, 0)],
        [("window", 0, 1)], [("window", 0, 2)], [("window", 0, 3)],
    ]
    CFGS = [dict(profile=2, version=4, jitter=0.25), dict(profile=3, version=4, jitter=0.25)]

    def exhaustive_specs(self, tier, seed):
        return self.product_specs("w", self.CFGS[:1] if tier == "quick" else self.CFGS, None, self.EX_ALPHA,
                                  6 if tier == "quick" else 7, None, nsplit=2)

    def run_exhaustive(self, spec, res):
        pre = G.preamble({}, dict(window=1, handlers=7))
        return self.run_product(spec, res, self.CFGS, pre, self.EX_ALPHA, [])


T_Q2 = G.Table([
    (12, G.o_publish_q2), (3, G.o_publish_q1), (10, G.o_pubrec), (8, G.o_pubcomp), (2, G.o_puback), (6, G.o_fire),
    (2, G.o_advance_small), (4, G.o_lose_reconnect_persist), (1, G.o_lose_reconnect_clean), (1, G.o_lose),
    (2, G.o_reconnect_persist), (1, G.o_connack_ok), (1, G.o_window), (1, G.o_settle),
    (2, G.o_resume_with_publish), (1, G.o_late_connack),
])


class C09(SessionProp):
    id = "C09"
    monitor = staticmethod(M.mon_c09)
    table = T_Q2
    profiles = (2, 3)
    pre_kwargs = dict(clean=0)
    rule = ("Histories of QoS 2 publishes (QoS 1 noise) with PUBREC/PUBCOMP in order, out of order, duplicated "
            "or unknown, retry expiries of PUBLISH and PUBREL, and loss + persistent reconnect at any point "
            "(several in a row); plus all sequences up to length 6/7 over {pub q2, REC oldest/newest/dup, COMP "
            "oldest/newest/dup, fire, lose+reconnect persistent} with window 2 (exhaustive). Oracle per "
            "exchange: PUBREL only after a PUBREC for the id, no PUBLISH for the id after its first PUBREL on "
            "any connection, success only on PUBCOMP. Non-trivial = an expiry or a loss falls between PUBREC "
            "and PUBCOMP, or a PUBREC is duplicated.")
    EX_ALPHA = [
        [("publish", 0, 2)],
        [("rx", 0, "PUBREC", 0, 0, 0)], [("rx", 0, "PUBREC", 1, 0, 0)], [("rx", 0, "PUBREC", 3, 0, 0)],
        [("rx", 0, "PUBCOMP", 0, 0, 0)], [("rx", 0, "PUBCOMP", 1, 0, 0)], [("rx", 0, "PUBCOMP", 3, 0, 0)],
        [("fire", 1)],
        [("lose", 0, 1), ("build", 0), ("handlers", 0, 7), ("window", 0, 2), ("connect", 0, 0, 0, 0), ("rx", 0, "CONNACK", 0, 1)],
    ]
    CFGS = [dict(profile=2, version=4, jitter=0.25), dict(profile=3, version=3, jitter=0.25)]

    def exhaustive_specs(self, tier, seed):
        specs = self.product_specs("q2", self.CFGS, None, self.EX_ALPHA, 5 if tier == "quick" else 7, None, nsplit=2)
        return specs + [("wrap", i) for i in range(4 if tier == "quick" else 12)]

    def run_exhaustive(self, spec, res):
        if spec[0] == "wrap":
            # the identifier of an open exchange must stay reserved while the 16-bit counter goes round
            i = spec[1]
            cfg = self.CFGS[i % 2]
            ops = G.preamble({}, dict(window=4, handlers=7, clean=i % 2)) + [("publish", 0, 2), ("publish", 0, 2)]
            if i % 4 < 2:
                ops.append(("rx", 0, "PUBREC", 0, 0, 0))          # between PUBREC and PUBCOMP
            if i % 4 == 3:
                ops += [("rx", 0, "PUBREC", 1, 0, 0), ("fire", 2)]
            if i >= 4 and not (i % 2):
                ops += [("lose", 0, 1), ("build", 0), ("handlers", 0, 7), ("window", 0, 4), ("connect", 0, 0, 0, 0), ("rx", 0, "CONNACK", 0, 1)]
            ops += [("walk", 0, 65530 + i, 1 + (i // 2) % 2), ("publish", 0, 2), ("publish", 0, 1), ("publish", 0, 2), ("settle", 0)]
            case = (cfg, ops)
            res.add("wrap", case, self.check_case(case))
            res.exhaustive["wrap%d" % i] = 1
            return res
        pre = G.preamble({}, dict(window=2, handlers=7, clean=0))
        return self.run_product(spec, res, self.CFGS, pre, self.EX_ALPHA, [("settle", 0)])


T_MIX = G.Table([
    (10, G.o_publish), (4, G.o_subscribe), (3, G.o_unsubscribe), (8, G.o_ack_good), (3, G.o_ack_any),
    (3, G.o_inpub), (2, G.o_inrel), (3, G.o_fire), (3, G.o_advance), (2, G.o_window), (1, G.o_timeout),
    (1, G.o_bandwidth), (2, G.o_lose), (3, G.o_reconnect), (1, G.o_reconnect_noack), (2, G.o_connack),
    (2, G.o_disconnect), (1, G.o_pingresp), (1, G.o_handlers), (1, G.o_settle), (1, G.o_connect),
    (2, G.o_resume_with_publish), (2, G.o_arm), (1, G.o_segment), (1, G.o_late_connack),
])


class C18(SessionProp):
    id = "C18"
    monitor = staticmethod(M.mon_c18)
    table = T_MIX
    max_words = 45
    tail = (("advance", 14),)
    rule = ("Mixture histories over all API calls, all broker packets, timer expiries, disconnect()/abort "
            "followed by API calls and expiries before the loss is reported, losses and reconnects, all three "
            "profiles, both versions. Oracle: per transport the concatenated wire bytes parse under the strict "
            "reference decoder (client-to-broker direction) into complete packets, first and only CONNECT "
            "first, DISCONNECT only inside disconnect() together with a close request and last, no write after "
            "the loss. Non-trivial = at least one API call or timer firing inside a closing interval, or >= 5 "
            "packet types on one stream.")



T_SUB = G.Table([
    (10, G.o_subscribe), (8, G.o_unsubscribe), (8, G.o_suback), (8, G.o_unsuback), (3, G.o_ack_good),
    (4, G.o_window), (3, G.o_fire), (2, G.o_advance_small), (3, G.o_lose_reconnect_persist),
    (3, G.o_lose_reconnect_clean), (1, G.o_lose), (1, G.o_reconnect), (1, G.o_settle), (1, G.o_publish_q12),
    (2, G.o_disconnect), (1, G.o_inpub), (2, G.o_arm), (2, G.o_segment),
])


class C07(SessionProp):
    id = "C07"
    monitor = staticmethod(M.mon_c07)
    table = T_SUB
    profiles = (1, 3)
    naddr = 2
    tail = (("settle", 1), ("settle", 0), ("idle", 3000.0))

    def strategy(self, tier):
        tb = self.table
        tail = list(self.tail)

        def mk(cfg, pre, pre2, two, ws):
            ops = G.preamble(cfg, pre)
            if two:
                ops += [tuple([o[0], 1] + list(o[2:])) for o in G.preamble(cfg, pre2)]
                return (cfg, ops + tb.decode(ws, 2) + tail)
            return (cfg, ops + tb.decode(ws, 1) + tail[1:])
        return st.builds(mk, G.cfg_strategy(self.profiles), G.pre_strategy(), G.pre_strategy(), st.sampled_from([False, False, True]),
                         G.words(self.max_words if tier == "quick" else self.max_words * 2, naddr=2))
    rule = ("Histories over subscribe (3 argument shapes, 1..5 topics, QoS 0..2, non-ASCII) and unsubscribe (2 "
            "shapes), SUBACK/UNSUBACK oldest/newest/k-th/duplicate/foreign-id with granted lists of the request's "
            "or of any length 0..8 over {0,1,2,0x80}, window changes 1..16 with requests pending, retry expiries, "
            "loss + reconnect under both session modes; every history ends with the broker answering everything "
            "and a 3000 s idle tail. Oracle: model of the pending sets and window (accepted below the window: one "
            "packet naming the topics in order under Deferred.msgId; otherwise MQTTWindowError and no write), "
            "success only inside the delivery of the SUBACK/UNSUBACK with its id and with the pairs of that "
            "packet's own codes, foreign acks inert, after a loss failed or resent, never pending at the end. "
            "Non-trivial = a foreign/duplicate ack, a window change with requests pending, or a loss with requests "
            "pending.")


T_INB = G.Table([
    (14, G.o_inpub), (8, G.o_inpub_q2), (10, G.o_inrel), (4, G.o_inpub_cut), (2, G.o_arm), (1, G.o_inpub_huge), (2, G.o_inpub_q2_burst), (2, G.o_lose_reconnect_persist), (2, G.o_lose_reconnect_clean),
    (1, G.o_handlers), (1, G.o_publish), (1, G.o_subscribe), (1, G.o_fire), (1, G.o_ack_good),
])


class C06(SessionProp):
    id = "C06"
    monitor = staticmethod(M.mon_c06)
    table = T_INB
    profiles = (1, 3)

    def strategy(self, tier):
        base = SessionProp.strategy(self, tier)

        def big(case):
            cfg, ops = case
            return (dict(cfg, big=True), ops)
        return base.map(big)
    rule = ("Histories of inbound PUBLISH (QoS 0/1/2, DUP, RETAIN, ids from a pool of three so that they are "
            "reused and interleaved, topics incl. non-ASCII and 300 bytes, payloads 0..100 kB) and PUBREL (oldest/"
            "newest/k-th stored, repeated, unknown id), repeats of a QoS 2 PUBLISH before its PUBREL, loss + clean/"
            "persistent reconnect inside exchanges; plus all sequences up to length 5/6 over a 10-op alphabet "
            "(exhaustive). Oracle: reference model of a method-B receiver (exact callback arguments, one PUBACK/"
            "PUBREC/PUBCOMP per packet echoing the id, QoS 2 delivered once per exchange, nothing unprompted). "
            "Non-trivial = a repeat, an unknown-id PUBREL, two interleaved exchanges or a reconnect inside an "
            "exchange.")
    EX_ALPHA = [
        [("rx", 0, "PUBLISH", 0, 0, 0)], [("rx", 0, "PUBLISH", 1, 3, 0)],
        [("rx", 0, "PUBLISH", 2, 0, 0)], [("rx", 0, "PUBLISH", 2, 5, 1)],
        [("rx", 0, "PUBREL", 0, 0, 0)], [("rx", 0, "PUBREL", 1, 0, 0)], [("rx", 0, "PUBREL", 3, 0, 0)],
        [("rx", 0, "PUBREL", 4, 0, 0)],
        [("lose", 0, 1), ("build", 0), ("handlers", 0, 7), ("connect", 0, 0, 0, 0), ("rx", 0, "CONNACK", 0, 1)],
        [("lose", 0, 0), ("build", 0), ("handlers", 0, 7), ("connect", 0, 0, 1, 0), ("rx", 0, "CONNACK", 0, 0)],
    ]
    CFGS = [dict(profile=1, version=4, jitter=0.25), dict(profile=3, version=3, jitter=0.25)]

    def exhaustive_specs(self, tier, seed):
        return self.product_specs("in", self.CFGS, None, self.EX_ALPHA, 4 if tier == "quick" else 6, None, nsplit=2)

    def run_exhaustive(self, spec, res):
        pre = G.preamble({}, dict(handlers=7, clean=0))
        return self.run_product(spec, res, self.CFGS, pre, self.EX_ALPHA, [])


T_HS = G.Table([
    (10, G.o_connack), (3, G.o_connack_ok), (6, G.o_advance), (5, G.o_fire), (6, G.o_lose), (3, G.o_handlers), (4, G.o_connect),
    (4, G.o_reconnect_noack), (2, G.o_reconnect), (3, G.o_publish), (2, G.o_subscribe), (2, G.o_ack_good),
    (1, G.o_disconnect), (1, G.o_pingresp), (3, G.o_arm_reconnect), (1, G.o_arm),
])


class C04(SessionProp):
    id = "C04"
    monitor = staticmethod(M.mon_c04)
    table = T_HS
    max_words = 25
    tail = (("idle", 200.0),)

    def strategy(self, tier):
        base = SessionProp.strategy(self, tier)

        def allow(case):
            cfg, ops = case
            return (dict(cfg, reconnect_refused=True), ops)
        return base.map(allow)
    pre_kwargs = dict(connack=(False, False, True), keepalives=(0, 7, 0, 1, 60))
    rule = ("Exhaustive: 3 profiles x 2 versions x keepalive {0,7} x 256 return codes x session-present {0,1} "
            "single-CONNACK cases, and all orderings up to length 4/5 of {CONNACK 0, CONNACK 5, CONNACK 200, "
            "expiry, advance short of expiry, loss (3 reasons), handler set/unset} after connect(); generated: the "
            "same events mixed with traffic, losses at any point of established sessions, reconnects. Oracle: one "
            "CONNECT equal to the reference encoding; the Deferred fires once (code 0: session-present; other: "
            "MQTTStateError and idle; no CONNACK by keepalive-or-10 s: MQTTTimeoutError at that instant + close); "
            "second CONNACK inert; after each loss idle and, if a handler was set, exactly one onDisconnection "
            "with that reason after the pending requests. Non-trivial = any case other than {code 0, no loss}.")
    EX_ALPHA = [
        [("rx", 0, "CONNACK", 0, 0)], [("rx", 0, "CONNACK", 5, 0)], [("rx", 0, "CONNACK", 200, 1)],
        [("fire", 1)], [("advance", 9)], [("lose", 0, 0)], [("lose", 0, 1)], [("handlers", 0, 0)], [("handlers", 0, 7)],
        [("advance", 1)], [("connect", 0, 0, 1, 0)], [("publish", 0, 1)],
    ]
    CFGS = [dict(profile=p, version=v, jitter=0.25) for p in (1, 2, 3) for v in (3, 4)]

    def exhaustive_specs(self, tier, seed):
        specs = [("codes", ci, ka) for ci in range(len(self.CFGS)) for ka in (0, 7)]
        specs += self.product_specs("hs", self.CFGS[1:5:3] if tier == "quick" else self.CFGS, None, self.EX_ALPHA,
                                    4 if tier == "quick" else 5, None, nsplit=1)
        return specs

    def run_exhaustive(self, spec, res):
        if spec[0] == "codes":
            _, ci, ka = spec
            cfg = self.CFGS[ci]
            n = 0
            for code in range(256):
                for sp in (0, 1):
                    ops = [("build", 0), ("handlers", 0, 7), ("connect", 0, ka, 1, 0), ("rx", 0, "CONNACK", code, sp),
                           ("lose", 0, 0), ("idle", 50.0)]
                    case = (cfg, ops)
                    res.add("exhaustive:codes", case, self.check_case(case))
                    n += 1
            res.exhaustive["codes/cfg%d/ka%d" % (ci, ka)] = n
            return res
        pre = [("build", 0), ("handlers", 0, 7), ("connect", 0, 7 if spec[2] % 2 else 0, spec[2] % 3 != 0, 0)]
        cfgs = [dict(c, reconnect_refused=True) for c in self.CFGS]
        return self.run_product(spec, res, cfgs, pre, self.EX_ALPHA, [("idle", 100.0)])


def o_retrytail(ad, a, b, c):
    return [("retrytail", ad, 3 + a % 8, 300)]


def o_pub_refused_accepted(ad, a, b, c):
    # publishes made ahead of a CONNACK that refuses; the application connects again on the same protocol
    ops = [("lose", ad, 0), ("build", ad), ("handlers", ad, 7), ("window", ad, 1 + a % 3),
           ("connect", ad, 0, (c >> 1) & 1, 0)]
    for j in range(1 + (a >> 4) % 2):
        ops.append(("publish", ad, 1 + ((b >> j) & 1), 0, 0, 0, 0))
    if c & 4:
        ops.append(("subscribe", ad, 0, 1, 1))
    ops += [("rx", ad, "CONNACK", 1 + a % 5, 0)]
    if c & 8:
        ops.append(("fire", 1))
    return ops + [("connect", ad, 0, c & 1, 0x80 if c & 16 else 0), ("rx", ad, "CONNACK", 0, 0)]


T_RETRY = G.Table([
    (8, G.o_publish_q12), (4, G.o_subscribe), (4, G.o_unsubscribe), (12, G.o_fire_many), (3, G.o_advance),
    (4, G.o_pubrec), (2, G.o_ack_good), (2, G.o_timeout), (2, G.o_bandwidth), (1, G.o_window),
    (1, G.o_lose_reconnect_persist), (1, o_retrytail), (1, G.o_publish), (2, G.o_resume_with_publish), (3, G.o_connack_ok),
    (1, G.o_reconnect_noack), (3, G.o_late_connack), (2, o_pub_refused_accepted),
])


class C08(SessionProp):
    id = "C08"
    monitor = staticmethod(M.mon_c08)
    table = T_RETRY
    cfg_extra = dict(reconnect_refused=True, flip_version=True)
    max_words = 45
    pre_kwargs = dict(keepalives=(0, 0, 0, 0, 60), connack=(True, True, False))
    rule = ("Histories over QoS 1/2 publishes (payload 0..20 kB), subscribe, unsubscribe, PUBREC (so that PUBREL "
            "is outstanding), runs of 1..12 timer expiries, setTimeout 1..1024, setBandwith 1..1e7 x factor 1..4, "
            "both protocol versions, acks for other packets, window changes, persistent reconnects, and a retry "
            "tail that lets timers fire until every outstanding packet was seen 3..10 more times. Oracle over the "
            "time-stamped wire log per packet and connection: first transmission DUP=0, repeats byte-identical "
            "except DUP (set for PUBLISH always, for the others exactly under 3.1), repeats only inside timer "
            "firings, gap >= initial timeout in force when first sent, PUBLISH gaps non-decreasing (jitter "
            "constant within a case), no exception from a timer, every unacknowledged packet on a live connection "
            "has a timer. Non-trivial = some packet repeated at least twice.")

    def strategy(self, tier):
        base = SessionProp.strategy(self, tier)

        def add_tail(case):
            cfg, ops = case
            return (cfg, ops + [("retrytail", 0, 4, 400)])
        return base.map(add_tail)


class C13(SessionProp):
    id = "C13"
    monitor = staticmethod(M.mon_c13)
    table = T_MIX
    max_words = 45
    pre_kwargs = dict(keepalives=(0, 0, 0, 7, 60, 2))
    tail = (("settle", 0), ("idle", 5000.0))
    rule = ("Mixture histories (all profiles, both session modes, requests in every state that accepts them, acks, "
            "expiries, losses, reconnects, publish before CONNACK) followed by the broker answering everything and "
            "5000 s of virtual time with every due timer fired. Oracle after every step: nothing is written for a "
            "request whose Deferred has fired; nothing is written to a transport reported lost; the number of "
            "pending timers never exceeds unacknowledged packets on live connections + undelivered onDisconnection "
            "notifications + running CONNACK timers + 2 per connected protocol with keepalive on. Non-trivial = a "
            "settled request followed by >= 1 s of virtual time, or a loss with timers pending.")


def o_ping_in_time(ad, a, b, c):
    # fire the next timer instant(s), then answer
    return [("fire", 1), ("rx", ad, "PINGRESP")]


def o_ping_late(ad, a, b, c):
    return [("fire", 1 + a % 3), ("rx", ad, "PINGRESP")]


def o_pingrun(ad, a, b, c):
    return [("pingrun", ad, 2 + a % 30, b % 4)]


def o_refused_then_accepted(ad, a, b, c):
    # a new protocol whose first connect() is refused and whose second, with other arguments, is accepted
    from .sim import KEEPALIVE_TABLE
    return [("lose", ad, 0), ("build", ad), ("handlers", ad, 7),
            ("connect", ad, KEEPALIVE_TABLE[a % 8], (c >> 1) & 1, 0), ("rx", ad, "CONNACK", 1 + a % 5, 0),
            ("connect", ad, KEEPALIVE_TABLE[b % 8], c & 1, 0), ("rx", ad, "CONNACK", 0, 0)]


T_KA = G.Table([
    (12, o_ping_in_time), (4, o_ping_late), (5, G.o_pingresp), (5, G.o_advance), (4, G.o_fire), (9, o_pingrun),
    (3, G.o_publish), (2, G.o_ack_good), (2, G.o_lose), (3, G.o_reconnect), (1, G.o_disconnect), (1, G.o_subscribe),
    (2, G.o_arm_disconnect), (1, G.o_arm), (3, o_refused_then_accepted),
])


def o_late(ad, a, b, c):
    return [("late", a % 4)]


def o_late_tick(ad, a, b, c):
    # one timer pass run late, the next one on time, then a PINGRESP: two PINGREQs can be outstanding at once
    pre = [("rx", ad, "PINGRESP")] if c % 4 else []          # the PINGREQ before is answered: no abort yet
    return pre + [("late", 1 + a % 3), ("fire", 1), ("late", 0), ("fire", 1)] + ([("rx", ad, "PINGRESP")] if b % 4 else [])


# the same with a reactor that is sometimes late in getting round to its delayed calls
T_KA_LATE = G.Table(T_KA.rows + [(6, o_late), (14, o_late_tick)])


class C15(SessionProp):
    id = "C15"
    monitor = staticmethod(M.mon_c15)
    table = T_KA
    tables = [T_KA, T_KA_LATE]
    cfg_extra = dict(reconnect_refused=True)
    max_words = 30
    tail = (("advance", 12),)
    pre_kwargs = dict(keepalives=(0, 1, 2, 5, 7, 60, 65535, 3), connack=(True, True, True, True, False))
    rule = ("Histories with keepalive in {0,1,2,3,5,7,60,65535}: PINGRESP in time, exactly at the deadline, late, "
            "never, twice or unsolicited (also with keepalive 0), other traffic, runs of up to 30 answered periods, "
            "loss and reconnect with another keepalive; in half of the histories the reactor runs some timer passes up to "
            "0.3 s late. Oracle over the time-stamped wire log: from CONNACK to the "
            "end of the connection consecutive PINGREQs <= k apart; an unanswered PINGREQ leads to abort no later "
            "than k after it; a timer closes the connection only when some PINGREQ (PINGRESPs answer the oldest "
            "outstanding one) has gone k seconds without its answer; "
            "keepalive 0 never pings; nothing after the loss; no exception. Non-trivial = >= 3 periods, a late/"
            "double/unsolicited response, or a reconnect.")

LOSS_VARIANTS = [
    ("broker_close", [("lose", 0, 0)]),
    ("network_failure", [("lose", 0, 1)]),
    ("protocol_error_abort", [("raw", 0, "f000"), ("lose", 0, 2)]),
    ("keepalive_timeout", [("advance", 11), ("advance", 11), ("lose", 0, 2)]),
    ("disconnect", [("disconnect", 0), ("lose", 0, 0)]),
    ("malformed_publish_abort", [("raw", 0, "300400106162"), ("lose", 0, 2)]),
]


class PrefixFaultProp(SessionProp):
    """fault enumeration: every prefix of every generated history is cut by a loss, followed by a
    reconnect and fresh traffic"""
    pre_fixed = {}
    post_variants = []
    hist_len = 12

    def strategy(self, tier):
        tb = self.table
        post = self.post_variants

        def mk(cfg, pre, ws, lv, pv):
            p = dict(pre)
            p.update(self.pre_fixed)
            return (cfg, G.preamble(cfg, p), tb.decode(ws), lv, pv)
        return st.builds(mk, G.cfg_strategy(self.profiles), G.pre_strategy(**self.pre_kwargs),
                         G.words(self.hist_len if tier == "quick" else self.hist_len * 2),
                         st.integers(0, len(LOSS_VARIANTS) - 1), st.integers(0, len(post) - 1))

    def run_shard(self, spec):
        res = ShardResult()
        if spec[0] != "gen":
            return self.run_exhaustive(spec, res)
        _, tier, sd, n = spec
        if n is None:
            n = self.quick_examples if tier == "quick" else self.thorough_examples
        prop = self

        @hseed(sd)
        @settings(max_examples=n, database=None, deadline=None, phases=[Phase.generate],
                  suppress_health_check=list(HealthCheck), report_multiple_bugs=False)
        @given(self.strategy(tier))
        def run(x):
            cfg, pre, hist, lv, pv = x
            ks = range(len(hist) + 1)
            if len(hist) > 80:       # histories blown up by a macro: every cut in the first 40 steps, then a stride
                ks = sorted(set(list(range(41)) + list(range(41, len(hist) + 1, max(1, (len(hist) - 40) // 40))) + [len(hist)]))
            for k in ks:
                ops = pre + hist[:k] + LOSS_VARIANTS[lv][1] + prop.post_variants[pv]
                case = (cfg, ops)
                res.add("prefix_cut", case, prop.check_case(case))
        run()
        return res


T_CLEAN = G.Table([
    (12, G.o_publish), (5, G.o_subscribe), (4, G.o_unsubscribe), (5, G.o_pubrec), (3, G.o_ack_good), (4, G.o_fire),
    (2, G.o_window), (1, G.o_advance_small), (1, G.o_inpub), (1, G.o_pubcomp), (3, G.o_connack), (1, G.o_arm),
])
POST_CLEAN = [
    [("build", 0), ("handlers", 0, 7), ("connect", 0, 0, 1, 0), ("rx", 0, "CONNACK", 0, 0), ("publish", 0, 1),
     ("subscribe", 0, 0, 1, 1), ("publish", 0, 0), ("settle", 0), ("idle", 300.0)],
    [("build", 0), ("handlers", 0, 7), ("window", 0, 3), ("connect", 0, 0, 1, 0), ("publish", 0, 2), ("rx", 0, "CONNACK", 0, 0),
     ("publish", 0, 1), ("fire", 2), ("settle", 0), ("idle", 300.0)],
    [("build", 0), ("connect", 0, 0, 0, 0), ("rx", 0, "CONNACK", 0, 1), ("publish", 0, 2), ("settle", 0), ("idle", 300.0)],
]


class C11(PrefixFaultProp):
    id = "C11"
    monitor = staticmethod(M.mon_c11)
    table = T_CLEAN
    pre_fixed = dict(clean=1, keepalive=7)
    pre_kwargs = dict(clean=1, connack=(True, True, False))
    post_variants = POST_CLEAN
    quick_examples = 250
    thorough_examples = 6000
    rule = ("Fault enumeration: every prefix of every generated clean-session history (publishes at mixed QoS "
            "held back / sent / PUBREC-ed / retransmitted, subscribes, unsubscribes, window changes) is cut by each "
            "kind of loss (broker close, network failure, client abort after a malformed packet or unknown type, "
            "keepalive timeout, disconnect()), followed by a rebuilt protocol on the same address, fresh traffic, "
            "the broker answering everything and an idle tail; plus all histories up to length 4/5 over a 9-op "
            "alphabet x 5 loss kinds (exhaustive). Oracle: at the loss every pending QoS>0 publish / subscribe / "
            "unsubscribe Deferred of that connection fails exactly once with that very reason object; nothing of "
            "a request made on a clean connection is written on a later one. Non-trivial = at least one request "
            "pending at the cut.")
    EX_ALPHA = [
        [("publish", 0, 0)], [("publish", 0, 1)], [("publish", 0, 2)], [("subscribe", 0, 0, 1, 1)],
        [("unsubscribe", 0, 1, 2, 0)], [("rx", 0, "PUBREC", 0, 0, 0)], [("rx", 0, "PUBACK", 0, 0, 0)], [("fire", 1)],
        [("window", 0, 2)],
    ]
    CFGS = [dict(profile=3, version=4, jitter=0.25)]

    def exhaustive_specs(self, tier, seed):
        return [("ex", lv, ln) for lv in range(len(LOSS_VARIANTS)) for ln in range(0, (5 if tier == "quick" else 6))]

    def run_exhaustive(self, spec, res):
        _, lv, ln = spec
        pre = G.preamble({}, dict(handlers=7, clean=1, keepalive=7))
        n = 0
        for seq in itertools.product(self.EX_ALPHA, repeat=ln):
            ops = pre + [o for g in seq for o in g] + LOSS_VARIANTS[lv][1] + POST_CLEAN[(n + lv) % len(POST_CLEAN)]
            case = (self.CFGS[0], ops)
            res.add("exhaustive:cut", case, self.check_case(case))
            n += 1
        res.exhaustive["len%d/%s" % (ln, LOSS_VARIANTS[lv][0])] = n
        return res


def o_setid_any(ad, a, b, c):
    """place the packet-id counter shortly before the wrap (identifiers then stop following request order)"""
    return [("setid", 65528 + (a % 8))]


def o_many_resumes(ad, a, b, c):
    # a flaky link: the session is resumed again and again while the broker never acknowledges
    n = 12 + a % 30          # (the 1100-fold version is a block of its own in C12: see C12.run_exhaustive)
    ops = []
    for j in range(n):
        ops += [("lose", ad, j % 3), ("build", ad), ("connect", ad, 0, 0, 0), ("rx", ad, "CONNACK", 0, 1)]
    return ops


T_PERS = G.Table([
    (12, G.o_publish_q12), (3, G.o_publish_q0), (5, G.o_pubrec), (3, G.o_puback), (3, G.o_pubcomp), (3, G.o_ack_good),
    (3, G.o_fire), (2, G.o_window), (1, G.o_advance_small), (3, G.o_lose_reconnect_persist), (1, G.o_lose_reconnect_clean),
    (2, G.o_reconnect_noack), (2, G.o_lose), (2, G.o_connack_ok), (1, G.o_build), (1, G.o_subscribe),
    (3, G.o_resume_with_publish), (2, o_setid_any), (2, G.o_arm), (2, G.o_late_connack), (2, G.o_connack),
    (1, o_many_resumes),
])
POST_PERS = [
    [("build", 0), ("handlers", 0, 7), ("connect", 0, 0, 0, 0), ("rx", 0, "CONNACK", 0, 1), ("publish", 0, 1), ("settle", 0), ("idle", 300.0)],
    [("build", 0), ("handlers", 0, 7), ("window", 0, 2), ("connect", 0, 0, 0, 0), ("publish", 0, 2), ("publish", 0, 1),
     ("rx", 0, "CONNACK", 0, 1), ("fire", 1), ("settle", 0), ("idle", 300.0)],
    [("build", 0), ("connect", 0, 0, 1, 0), ("publish", 0, 1), ("rx", 0, "CONNACK", 0, 0), ("publish", 0, 2), ("settle", 0), ("idle", 300.0)],
    [("build", 0), ("connect", 0, 0, 0, 0), ("lose", 0, 1), ("build", 0), ("connect", 0, 0, 0, 0), ("rx", 0, "CONNACK", 0, 1),
     ("fire", 2), ("lose", 0, 0), ("build", 0), ("handlers", 0, 7), ("connect", 0, 0, 0, 0), ("rx", 0, "CONNACK", 0, 1), ("settle", 0), ("idle", 300.0)],
    [("build", 0), ("lose", 0, 0), ("build", 0), ("connect", 0, 0, 0, 0), ("rx", 0, "CONNACK", 0, 1), ("settle", 0), ("idle", 300.0)],
    [("build", 0), ("connect", 0, 0, 1, 0), ("lose", 0, 0), ("build", 0), ("connect", 0, 0, 0, 0), ("rx", 0, "CONNACK", 0, 0), ("settle", 0), ("idle", 300.0)],
    [("build", 0), ("handlers", 0, 7), ("connect", 0, 0, 0, 0), ("rx", 0, "CONNACK", 3, 0), ("lose", 0, 0), ("build", 0), ("handlers", 0, 7),
     ("connect", 0, 0, 0, 0), ("rx", 0, "CONNACK", 0, 1), ("fire", 1), ("settle", 0), ("idle", 300.0)],
]


class C12(PrefixFaultProp):
    id = "C12"
    monitor = staticmethod(M.mon_c12)
    table = T_PERS
    profiles = (2, 3)
    pre_fixed = dict(clean=0, keepalive=7, connack=True)
    pre_kwargs = dict(clean=0)
    post_variants = POST_PERS
    quick_examples = 800
    thorough_examples = 12000
    rule = ("Fault enumeration: every prefix of every generated persistent-session history (QoS 1/2 publishes in "
            "every stage, QoS 0 held back, acks, expiries, window changes, nested losses and reconnects) is cut by "
            "each kind of loss, followed by one of seven continuations: a persistent reconnect refused by the broker and then accepted, persistent reconnect, persistent reconnect "
            "with publishes before its CONNACK, clean reconnect with a publish before its CONNACK, three losses in "
            "a row (one before CONNACK), a rebuilt protocol lost before connect(), a clean connection lost before "
            "its CONNACK; then the broker answers everything and an idle tail runs. Oracle: reference model of the "
            "persistent sender (no publish Deferred fails at a persistent loss; inside the next persistent CONNACK "
            "exactly the unacknowledged PUBRELs and, with DUP=1, same bytes and original order, the unacknowledged "
            "PUBLISHes, none for released ids; a clean CONNACK fails the carried-over ones with MQTTSessionCleared "
            "and nothing of them is written again; requests made on the new connection before its CONNACK are "
            "neither failed nor re-sent; all complete once everything is answered). Non-trivial = a persistent "
            "loss with at least one unfinished QoS>0 publish. Plus four hand-built blocks: a session resumed "
            "1100 times in a row (each kind of loss) while the broker acknowledges nothing, then answered.")

    def exhaustive_specs(self, tier, seed):
        return [("resumes", i) for i in range(4 if tier == "quick" else 8)]

    def run_exhaustive(self, spec, res):
        i = spec[1]
        cfg = dict(profile=3 if i % 2 else 2, version=4 if i % 4 < 2 else 3, jitter=0.25)
        ops = [("build", 0), ("handlers", 0, 7), ("window", 0, 1 + i % 3), ("connect", 0, 0, 0, 0), ("rx", 0, "CONNACK", 0, 0),
               ("publish", 0, 1 + i % 2, i % 3, 0, 0, 0), ("publish", 0, 2 - i % 2), ("publish", 0, 0), ("publish", 0, 1)]
        if i % 2:
            ops.append(("rx", 0, "PUBREC", 0, 0, 0))
        for j in range(1100 if i < 4 else 2200):
            ops += [("lose", 0, j % 3), ("build", 0), ("connect", 0, 0, 0, 0), ("rx", 0, "CONNACK", 0, 1)]
        ops += [("settle", 0), ("settle", 0), ("idle", 300.0)]
        case = (cfg, ops)
        res.add("exhaustive:resumed_1100_times", case, self.check_case(case))
        res.exhaustive["resumes%d" % i] = 1
        return res


def o_setid(ad, a, b, c):
    return [("setid", 65520 + (a % 16))]


def o_walk_short(ad, a, b, c):
    return [("walk", ad, 10 + a % 40, 1 + (b & 1))]


T_IDS = G.Table([
    (10, G.o_publish_q12), (4, G.o_subscribe), (3, G.o_unsubscribe), (6, G.o_ack_good), (3, G.o_window), (3, o_setid),
    (4, o_walk_short), (2, G.o_lose_reconnect_persist), (1, G.o_lose_reconnect_clean), (2, G.o_pubrec), (1, G.o_fire),
    (1, G.o_publish_q0),
])


class C17(SessionProp):
    id = "C17"
    monitor = staticmethod(M.mon_c17)
    table = T_IDS
    naddr = 2
    profiles = (3, 3, 2)
    max_words = 40
    pre_kwargs = dict(windows=(16, 16, 4, 2), keepalives=(0,))
    rule = ("Histories on two addresses of one factory creating unfinished requests of every kind (held back, "
            "awaiting PUBACK/PUBREC/PUBCOMP/SUBACK/UNSUBACK, preserved by a persistent session), with the id "
            "counter placed at 65520..65535 at generated moments and short runs of acknowledged publishes; plus "
            "natural wraps: walks of 66 000 / 140 000 acknowledged QoS 1/2 publishes with 1..6 old requests of "
            "various kinds kept unfinished, both session modes. Oracle: every id on the wire and every "
            "Deferred.msgId is in 1..65535 and, when a request is accepted, differs from the id of every "
            "unfinished request of the factory (any address, any kind). Non-trivial = the counter wraps; "
            "distinct = distinct case hash.")

    def strategy(self, tier):
        tb = self.table

        def mk(cfg, pre, ws):
            ops = G.preamble(cfg, pre)
            # second address up as well
            ops += [("build", 1), ("handlers", 1, 7), ("window", 1, 4), ("connect", 1, 0, pre.get("clean", 1), 0),
                    ("rx", 1, "CONNACK", 0, 0)]
            return (cfg, ops + tb.decode(ws, 2))
        return st.builds(mk, G.cfg_strategy(self.profiles), G.pre_strategy(**self.pre_kwargs), G.words(self.max_words, naddr=2))

    def exhaustive_specs(self, tier, seed):
        n = 16 if tier == "quick" else 64
        return [("walk", i, seed) for i in range(n)]

    def run_exhaustive(self, spec, res):
        _, i, seed = spec
        cfg = dict(profile=3 if i % 3 else 2, version=4 if i % 2 else 3, jitter=0.25)
        clean = (i >> 1) & 1
        ops = [("build", 0), ("handlers", 0, 7), ("window", 0, 16), ("connect", 0, 0, clean, 0), ("rx", 0, "CONNACK", 0, 0),
               ("build", 1), ("handlers", 1, 7), ("window", 1, 16), ("connect", 1, 0, clean, 0), ("rx", 1, "CONNACK", 0, 0)]
        # old requests of various kinds, left unfinished
        kinds = [("publish", 0, 1), ("publish", 0, 2), ("subscribe", 0, 2, 2, 1), ("unsubscribe", 0, 1, 1, 0),
                 ("publish", 1, 1), ("publish", 1, 2)]
        start = (i * 7 + seed) % 50
        ops.append(("walk", 0, start, 1))
        chosen = [kinds[(i + j) % len(kinds)] for j in range(1 + i % 6)]
        for kk in chosen:
            if cfg["profile"] == 2 and kk[0] != "publish":
                continue
            ops.append(kk)
        if i % 4 == 1:
            ops.append(("rx", 0, "PUBREC", 0, 0, 0))       # one of them now awaits PUBCOMP
        if i % 5 == 2 and not clean:
            ops += [("lose", 1, 1), ("build", 1), ("window", 1, 16), ("connect", 1, 0, 0, 0), ("rx", 1, "CONNACK", 0, 1)]
        ops.append(("walk", (i >> 2) & 1 if not (i % 5 == 2) else 0, 66000 if i % 8 else 140000, 1 + (i % 2)))
        ops += [("publish", 0, 1), ("subscribe", 0, 0, 1, 0), ("publish", 1, 2)]
        case = (cfg, ops)
        res.add("wrap_walk", case, self.check_case(case))
        res.exhaustive["walk%d" % i] = 1
        return res


def _norm_marker(x, ren):
    import re as _re
    if isinstance(x, (bytes, bytearray)):
        def rb(m):
            return b"#" + str(ren("m", int(m.group(1)))).encode() + b"#"
        x = _re.sub(rb"#(\d{6})#", rb, bytes(x))   # anywhere: a desynchronised stream delivers packets as payload
        def rb2(m):
            return b"<" + str(ren("i", int(m.group(1)))).encode() + b">"
        return _re.sub(rb"<(\d{6})>", rb2, x)
    if isinstance(x, str):
        def rs(m):
            return m.group(1) + str(ren("m", int(m.group(2)))) + "/"
        return _re.sub(r"^([su])(\d+)/", rs, x)
    return x


def address_view(w, a, skip_rids=()):
    """the observation log restricted to one address, ids / request numbers / markers renamed by
    order of first appearance; timers are compared separately"""
    maps = {}

    def ren(space, v):
        m = maps.setdefault(space, {})
        if v not in m:
            m[v] = len(m)
        return m[v]
    out = []
    desync = set()     # connections whose inbound stream was desynchronised by a raw fragment
    for e in w.log:
        if e.c is None or w.conns[e.c].a != a:
            continue
        if skip_rids and e.ctx and e.ctx[0] == "api" and e.ctx[-1] in skip_rids:
            continue
        k = e.k
        if k == "rx" and e.d["desc"][0] == "RAW":
            desync.add(e.c)
        if k == "write":
            frs = []
            for fr in e.d["frames"]:
                f = fr[1]
                if isinstance(f, dict):
                    g = {}
                    for kk, v in sorted(f.items()):
                        if kk == "id" and v is not None and fr[0] in ("PUBLISH", "PUBREL", "SUBSCRIBE", "UNSUBSCRIBE"):
                            v = ren("id", v)      # client-allocated; ids echoed to the broker are the broker's
                        elif kk == "payload":
                            v = _norm_marker(v, ren)
                        elif kk == "topics":
                            v = [(_norm_marker(t[0], ren), t[1]) if isinstance(t, tuple) else _norm_marker(t, ren) for t in v]
                        elif kk == "client_id":
                            v = "cid"
                        g[kk] = v
                    frs.append((fr[0], tuple(sorted((x, repr(y)) for x, y in g.items()))))
                else:
                    frs.append((fr[0], str(f)))
            out.append(("write", round(e.t, 6), e.d["where"], tuple(frs), e.ctx[0] if e.ctx else None))
        elif k == "fire":
            v = e.d["val"]
            if isinstance(v, int) and not isinstance(v, bool) and e.d["kind"] in ("publish", "unsubscribe"):
                v = ren("id", v)
            out.append(("fire", round(e.t, 6), e.d["kind"], ren("rid", e.d["rid"]), e.d["out"], repr(v)))
        elif k == "cb":
            d = dict(e.d)
            d.pop("robj", None)
            if "payload" in d:
                d["payload"] = _norm_marker(bytes(d["payload"]), ren)
                if e.c in desync:
                    # later packets may be delivered as the payload / topic of the fragment: the identifiers
                    # and markers inside them are shared by the addresses and cannot be renamed there
                    d["payload"] = ("bytes", len(bytes(e.d["payload"])))
                    if "topic" in d:
                        d["topic"] = ("chars", len(e.d["topic"]))
            if d.get("msgid") is not None and "msgid" in d:
                d["msgid"] = d["msgid"]       # inbound ids are the broker's, identical in both runs
            out.append(("cb", round(e.t, 6), tuple(sorted((x, repr(y)) for x, y in d.items()))))
        elif k in ("close", "abort", "lost", "raised"):
            out.append((k, round(e.t, 6), e.d.get("reason") or e.d.get("exc")))
        elif k == "api":
            r = w.reqs[e.d["rid"]]
            mid = r.msgid
            if isinstance(mid, int) and not isinstance(mid, bool):
                mid = ren("id", mid)
            out.append(("api", round(e.t, 6), e.d["op"], ren("rid", e.d["rid"]), e.d.get("ret"), e.d.get("state"),
                        e.d.get("state_after"), repr(mid)))
    return out



def op_addr(op):
    if op[0] in ("advance", "fire", "idle", "setid"):
        return None
    return op[1]


T_TWO = G.Table([
    (10, G.o_publish), (4, G.o_subscribe), (2, G.o_unsubscribe), (8, G.o_ack_good), (2, G.o_ack_any), (3, G.o_inpub),
    (2, G.o_inrel), (5, G.o_advance_small), (2, G.o_window), (2, G.o_lose), (2, G.o_lose_reconnect_persist),
    (2, G.o_lose_reconnect_clean), (1, G.o_reconnect_noack), (1, G.o_connack_ok), (1, G.o_disconnect), (1, G.o_settle),
    (2, G.o_partial), (1, G.o_inpub_cut),
])


class C19(SessionProp):
    id = "C19"
    table = T_TWO
    naddr = 2
    max_words = 30
    rule = ("One op list over two broker addresses A and B of one factory plus global time steps (advance only): "
            "publishes, subscribes, acks, inbound traffic, window changes, loss and clean/persistent reconnect on "
            "either side while the other is mid-exchange; generated interleavings, plus every interleaving of every "
            "pair of solo histories up to length 2/3 over a 6-op alphabet (exhaustive). Oracle (metamorphic): the "
            "merged run is compared with the two runs obtained by deleting the other address's operations on a "
            "fresh factory: per address the observation logs (API results, writes with times, Deferred outcomes, "
            "callbacks, transport calls) must be equal after renaming identifiers by order of first appearance, "
            "and after every step the multiset of pending timer times of the merged run equals the union of the "
            "two solo runs; the C17 monitor runs on the merged run. Non-trivial = both addresses have a request "
            "outstanding at the same step.")

    def strategy(self, tier):
        tb = self.table

        def mk(cfg, preA, preB, ws):
            ops = G.preamble(cfg, preA)
            pb = [tuple([o[0], 1] + list(o[2:])) for o in G.preamble(cfg, preB)]
            return (cfg, ops + pb + tb.decode(ws, 2) + [("advance", 12)])
        return st.builds(mk, G.cfg_strategy((3, 3, 1, 2)), G.pre_strategy(), G.pre_strategy(),
                         G.words(self.max_words if tier == "quick" else 60, naddr=2))

    def check_case(self, case):
        cfg, ops = case
        ops = [tup(o) for o in ops]
        # selector 7 ("an identifier in use at the other broker") delivers nothing when the other address is
        # absent; on a stream that a raw fragment has desynchronised those four bytes shift the framing of
        # everything behind them, so the solo run would not be the same history: left out there
        fragments = set(o[1] for o in ops if o[0] == "raw")
        ops = [o for o in ops if not (o[0] == "rx" and len(o) > 3 and o[3] == 7 and o[1] in fragments)]
        # More generally, behind an *incomplete* frame the packet identifiers inside later packets decide how
        # the stream is framed (a byte of an identifier is read as a length byte), and identifiers are exactly
        # what differs, legitimately, between the merged and the solo run: raw data that is not a sequence of
        # complete frames is left out of C19 histories (C03/C16 cover it on one address)
        def _complete(o):
            try:
                data = bytes.fromhex(o[2]) if isinstance(o[2], str) else bytes(o[2])
                frames, residue = R.ref_frames(data)
                return not residue
            except Exception:  # noqa: BLE001
                return False
        ops = [o for o in ops if o[0] != "raw" or _complete(o)]
        vd = Verdict()
        merged = sim.run_case(dict(cfg), ops)
        if merged.too_big:
            vd.label("case_aborted_too_many_events")
            return vd
        FM = Facts(merged)
        M.mon_c17(merged, FM, vd)
        for v in vd.viols:
            v.rule = v.rule.replace("C17.", "C19.identifiers.")
        vd.nontrivial = False
        both = False
        pend = {0: set(), 1: set()}
        for e in merged.log:
            if e.k == "api":
                ri = FM.info.get(e.d["rid"])
                if ri is not None and ri.accepted and not (ri.kind == "publish" and ri.qos == 0):
                    pend[ri.a].add(ri.rid)
            elif e.k == "fire":
                for a in (0, 1):
                    pend[a].discard(e.d["rid"])
            elif e.k == "timers" and pend[0] and pend[1]:
                both = True
        vd.nontrivial = both
        for a in (0, 1):
            keep = [i for i, o in enumerate(ops) if op_addr(o) in (None, a)]
            solo = sim.run_case(dict(cfg), [ops[i] for i in keep])
            va, vs = address_view(merged, a), address_view(solo, a)
            if va != vs:
                j = next((k for k in range(min(len(va), len(vs))) if va[k] != vs[k]), min(len(va), len(vs)))
                vd.bad("C19.behaviour_differs", "address %d: event %d differs: with the other address active %s, alone %s" % (
                    a, j, repr(va[j])[:160] if j < len(va) else "<nothing>", repr(vs[j])[:160] if j < len(vs) else "<nothing>"))
            # timers: merged == union of the solos, after every step
            if a == 0:
                solos = {}
            solos[a] = (keep, solo)
        stepmap = {}
        for a in (0, 1):
            keep, solo = solos[a]
            pos = {}
            for j, i in enumerate(keep):
                pos[i] = j
            stepmap[a] = (keep, pos, dict((e.step, [round(t, 6) for t, _ in e.d["pending"]]) for e in solo.log if e.k == "timers"))
        for e in merged.log:
            if e.k != "timers":
                continue
            want = []
            for a in (0, 1):
                keep, pos, tm = stepmap[a]
                # last kept op at or before this merged step
                import bisect
                j = bisect.bisect_right(keep, e.step) - 1
                if j >= 0:
                    want += tm.get(j, [])
            got = sorted(round(t, 6) for t, _ in e.d["pending"])
            if got != sorted(want):
                vd.bad("C19.timers_differ", "after step %d pending timers %s, the two solo runs together have %s" % (
                    e.step, got[:8], sorted(want)[:8]))
                break
        return vd

    EX_ALPHA = [
        ("publish", 1), ("publish", 2), ("subscribe", 0, 1, 1), ("rx", "PUBACK", 0, 0, 0), ("rx", "PUBREC", 0, 0, 0), ("lose", 1),
        ("reconnect", 0), ("reconnect", 1),
    ]

    @staticmethod
    def _ops_for(sym, a):
        if sym[0] == "reconnect":
            return [("lose", a, 0), ("build", a), ("handlers", a, 7), ("connect", a, 0, sym[1], 0), ("rx", a, "CONNACK", 0, 0)]
        if sym[0] == "rx":
            return [("rx", a) + tuple(sym[1:])]
        return [(sym[0], a) + tuple(sym[1:])]

    def exhaustive_specs(self, tier, seed):
        n = len(self.EX_ALPHA)
        L = 2 if tier == "quick" else 3
        hists = [()]
        for ln in range(1, L + 1):
            hists += list(itertools.product(range(n), repeat=ln))
        specs = []
        per = max(1, len(hists) // 32)
        for i in range(0, len(hists), per):
            specs.append(("pairs", L, i, min(i + per, len(hists))))
        return specs + [("wrapwalk", i) for i in range(4 if tier == "quick" else 12)]

    def run_exhaustive(self, spec, res):
        if spec[0] == "wrapwalk":
            # the only shared resource is the identifier counter: one address keeps requests unfinished while
            # the other takes the counter all the way round
            i = spec[1]
            cfg = dict(profile=3, version=4 if i % 2 else 3, jitter=0.25)
            busy, walker = (i >> 1) & 1, 1 - ((i >> 1) & 1)
            ops = []
            for a in (0, 1):
                ops += [("build", a), ("handlers", a, 7), ("window", a, 8), ("connect", a, 0, (i + a) % 2, 0), ("rx", a, "CONNACK", 0, 0)]
            ops += [("walk", walker, 20 + i, 1), ("publish", busy, 1), ("publish", busy, 2), ("subscribe", busy, 0, 1, 1)]
            if i % 3 == 0:
                ops.append(("rx", busy, "PUBREC", 0, 0, 0))
            ops += [("walk", walker, 65600, 1), ("publish", busy, 1), ("publish", busy, 2), ("publish", walker, 1),
                    ("settle", 0), ("settle", 1), ("advance", 9)]
            case = (cfg, ops)
            res.add("exhaustive:wrap_walk", case, self.check_case(case))
            res.exhaustive["wrapwalk%d" % i] = 1
            return res
        _, L, lo, hi = spec
        n = len(self.EX_ALPHA)
        hists = [()]
        for ln in range(1, L + 1):
            hists += list(itertools.product(range(n), repeat=ln))
        cfg = dict(profile=3, version=4, jitter=0.25)
        pre = []
        for a in (0, 1):
            pre += [("build", a), ("handlers", a, 7), ("window", a, 2), ("connect", a, 0, a, 0), ("rx", a, "CONNACK", 0, 0)]
        cnt = 0
        for ha in hists[lo:hi]:
            for hb in hists:
                if L >= 3 and len(ha) + len(hb) > 4:
                    continue
                for order in _interleavings(len(ha), len(hb)):
                    ops = list(pre)
                    ia = ib = 0
                    for who in order:
                        if who == 0:
                            ops += self._ops_for(self.EX_ALPHA[ha[ia]], 0)
                            ia += 1
                        else:
                            ops += self._ops_for(self.EX_ALPHA[hb[ib]], 1)
                            ib += 1
                    ops.append(("advance", 9))
                    case = (cfg, ops)
                    res.add("exhaustive:interleavings", case, self.check_case(case))
                    cnt += 1
        res.exhaustive["pairs_L%d_%d_%d" % (L, lo, hi)] = cnt
        return res


def _interleavings(na, nb):
    if na == 0:
        yield (1,) * nb
        return
    if nb == 0:
        yield (0,) * na
        return
    for rest in _interleavings(na - 1, nb):
        yield (0,) + rest
    for rest in _interleavings(na, nb - 1):
        yield (1,) + rest



def lib_effects(w, from_ei=0):
    """what the client did, in order, from event index from_ei on (deliveries themselves left out)"""
    out = []
    for e in w.log[from_ei:]:
        k = e.k
        if k == "write":
            out.append(("write", e.d["where"], bytes(e.d["data"])))
        elif k == "fire":
            out.append(("fire", e.d["kind"], e.d["rid"], e.d["out"], repr(e.d["val"])))
        elif k == "cb":
            d = dict(e.d)
            d.pop("robj", None)
            if "payload" in d:
                d["payload"] = bytes(d["payload"])
            out.append(("cb",) + tuple(sorted((x, repr(y)[:300] if not isinstance(y, bytes) else (len(y), y[:64])) for x, y in d.items())))
        elif k in ("close", "abort"):
            out.append((k,))
        elif k == "escape":
            out.append(("escape", e.d["exc"]))
    return out


T_STREAM = G.Table([
    (6, G.o_puback), (6, G.o_pubrec), (6, G.o_pubcomp), (5, G.o_suback), (4, G.o_unsuback), (10, G.o_inpub),
    (5, G.o_inrel), (3, G.o_pingresp), (2, G.o_ack_good),
])
T_SETUP = G.Table([
    (10, G.o_publish_q12), (3, G.o_publish_q0), (4, G.o_subscribe), (3, G.o_unsubscribe), (2, G.o_pubrec), (1, G.o_inpub_q2),
    (1, G.o_subscribe_many),
])


class C03(SessionProp):
    id = "C03"
    rule = ("A stream is a generated list of well-formed broker packets (CONNACK, PUBACK/PUBREC/PUBCOMP for pending "
            "or unknown ids, SUBACK, UNSUBACK, PINGRESP, PUBREL for stored ids, PUBLISH at each QoS with payloads "
            "giving 1-, 2-, 3- and 4-byte remaining lengths; floods of 2500-7000 packets in one segment) delivered to a client first driven "
            "into a state where each packet has an observable effect. Compositions: all 2^(n-1) for streams up to "
            "12/15 bytes (exhaustive), every 1-cut, byte-at-a-time, 2-cuts around packet boundaries and length "
            "fields, and Hypothesis-drawn compositions incl. empty chunks. Oracle (metamorphic): everything the "
            "client does (bytes written, Deferred outcomes, onPublish arguments, close calls, final pending "
            "timers) in the chunked run equals the run where each packet is its own chunk; and in that reference "
            "run each solicited packet shows its one expected effect. Non-trivial = at least one cut falls "
            "strictly inside a packet.")
    profiles = (3, 3, 1, 2)
    max_exhaustive_bytes = 14

    def strategy(self, tier):
        def mk(cfg, pre, setup_w, stream_w, cutseed, mode, with_connack):
            pre = dict(pre)
            pre["connack"] = not with_connack
            pre["keepalive"] = pre["keepalive"] or 0
            setup = G.preamble(cfg, pre)
            if cutseed[0] % 5 == 0:
                # an earlier connection through the same factory ended in the middle of a packet
                earlier = G.preamble(cfg, dict(pre, connack=True)) + G.o_partial(0, cutseed[0] >> 3, 0, 0) + [("lose", 0, cutseed[0] % 3)]
                setup = earlier + setup
            if not with_connack:
                setup += [("window", 0, 8)] + T_SETUP.decode(setup_w)
            stream = ([("rx", 0, "CONNACK", 0, 1)] if with_connack else []) + T_STREAM.decode(stream_w)
            return (cfg, setup, stream, ("gen", mode, cutseed))
        return st.builds(mk, G.cfg_strategy(self.profiles), G.pre_strategy(keepalives=(0, 7, 60)), G.words(8), G.words(8, 1),
                         st.lists(st.integers(0, 2 ** 16 - 1), min_size=1, max_size=12), st.integers(0, 5), st.booleans())

    def case_to_json(self, case):
        cfg, setup, stream, cuts = case
        return {"cfg": cfg, "setup": [list(o) for o in setup], "stream": [list(o) for o in stream], "cuts": list(cuts) if isinstance(cuts, tuple) else cuts}

    def case_from_json(self, j):
        c = j["cuts"]
        return (j["cfg"], [tup(o) for o in j["setup"]], [tup(o) for o in j["stream"]], tup(c) if isinstance(c, list) and c and isinstance(c[0], str) else c)

    # -- reference run: one packet per chunk
    def reference(self, cfg, setup, stream):
        w = sim.World(dict(cfg))
        try:
            w.run(setup)
            mark = len(w.log)
            w.run(stream)
            w.do(("advance", 0))
        except sim.CaseTooBig:
            w.too_big = True
        finally:
            w.finish()
        rxs = [e for e in w.log[mark:] if e.k == "rx"]
        data = [bytes(e.d["data"]) for e in rxs]
        return w, mark, data, rxs

    def chunked(self, cfg, setup, blob, cuts):
        w = sim.World(dict(cfg, rude=True))
        try:
            w.run(setup)
            mark = len(w.log)
            w.do(("raw", 0, blob, cuts))
            w.do(("advance", 0))
        except sim.CaseTooBig:
            w.too_big = True
        finally:
            w.finish()
        return w, mark

    @staticmethod
    def cuts_from(spec, data):
        """spec ('gen', mode, seeds) -> sorted cut offsets into the concatenated stream"""
        total = sum(len(d) for d in data)
        bounds = []
        acc = 0
        for d in data:
            bounds.append(acc)
            acc += len(d)
        if not isinstance(spec, tuple) or spec[0] != "gen":
            return sorted(set(int(x) for x in spec))
        _, mode, seeds = spec
        if total < 2:
            return []
        if mode == 0:      # byte at a time
            return list(range(1, total))
        if mode == 1:      # one cut
            return [1 + seeds[0] % (total - 1)]
        if mode == 2:      # cuts in and around fixed headers / length fields
            cs = set()
            for i, sd in enumerate(seeds):
                b = bounds[sd % len(bounds)]
                cs.add(b + 1 + (sd >> 8) % 4)
            return sorted(c for c in cs if 0 < c < total)
        if mode == 3:      # several packets per chunk: cuts only at some packet boundaries
            return sorted(set(bounds[sd % len(bounds)] for sd in seeds[:3]) - {0})
        cs = set(1 + sd % (total - 1) for sd in seeds)   # random composition
        return sorted(cs)

    def compare(self, vd, cfg, setup, stream, cutspec, ref=None):
        ref = ref or self.reference(cfg, setup, stream)
        w1, mark1, data, rxs = ref
        if w1.too_big or not data:
            return
        blob = b"".join(data)
        cuts = self.cuts_from(cutspec, data)
        w2, mark2 = self.chunked(cfg, setup, blob, cuts)
        if w2.too_big:
            return
        e1, e2 = lib_effects(w1, mark1), lib_effects(w2, mark2)
        # the reference run spreads the stream over several steps; effects are compared as sequences
        if e1 != e2:
            j = next((k for k in range(min(len(e1), len(e2))) if e1[k] != e2[k]), min(len(e1), len(e2)))
            vd.bad("C03.effects_differ", "stream of %d packets / %d bytes cut at %s: effect %d is %s chunked, %s with one packet per chunk" % (
                len(data), len(blob), cuts[:8], j, repr(e2[j])[:120] if j < len(e2) else "<missing>",
                repr(e1[j])[:120] if j < len(e1) else "<missing>"))
        t1 = sorted(round(t, 6) for t, _ in w1.timers_final)
        t2 = sorted(round(t, 6) for t, _ in w2.timers_final)
        if t1 != t2:
            vd.bad("C03.timers_differ", "pending timers after the stream: chunked %s, one packet per chunk %s" % (t2[:6], t1[:6]))
        # classification
        bounds = set()
        acc = 0
        for d in data:
            acc += len(d)
            bounds.add(acc)
        inside = [c for c in cuts if c not in bounds]
        vd.nontrivial = bool(inside)
        if inside:
            vd.label("cut_inside_packet")
        starts = [0] + sorted(bounds)
        for c in cuts:
            for i, s0 in enumerate(starts[:-1]):
                if s0 < c < starts[i + 1]:
                    off = c - s0
                    d = data[i]
                    lenlen = 1
                    while d[lenlen] & 0x80:
                        lenlen += 1
                    if off == 1:
                        vd.label("cut_between_type_and_length")
                    elif off <= lenlen:
                        vd.label("cut_inside_length_field")
                    vd.label("length_width:%d" % lenlen)
        if len(cuts) < len(data) - 1:
            vd.label("several_packets_in_one_chunk")
        if any(not c for c in []):
            pass

    def expected_effects(self, vd, ref):
        """(ii) the one-packet-per-chunk run shows the expected effect of each solicited packet"""
        w1, mark1, data, rxs = ref
        for e in rxs:
            d = e.d["desc"]
            evs = M._ctx_events(w1, e)
            kinds = [x.k for x in evs]
            if d[0] == "CONNACK" and w1.ops_done[e.step][0] == "rx":
                if not any(x.k == "phase" and x.c == e.c and x.step == e.step for x in w1.log[max(0, e.i - 3):e.i]):
                    continue          # not the CONNACK of a pending handshake
                if "fire" not in kinds:
                    vd.bad("C03.packet_without_effect", "CONNACK code %s did not settle the pending connect()" % d[1])
            elif d[0] in ("PUBACK", "PUBCOMP", "SUBACK", "UNSUBACK") and d[-1] in (0, 1, 2):
                if d[0] == "PUBCOMP":
                    continue     # only effective after a PUBREC; judged by C05
                if "fire" not in kinds:
                    vd.bad("C03.packet_without_effect", "%s id %s did not complete its request" % (d[0], d[1]))
            elif d[0] == "PUBREC" and d[-1] in (0, 1, 2):
                if not any(x.k == "write" and any(fr[0] == "PUBREL" for fr in x.d["frames"]) for x in evs):
                    vd.bad("C03.packet_without_effect", "PUBREC id %s not answered with PUBREL" % d[1])
            elif d[0] == "PINGRESP" and d[1] and w1.ops_done[e.step][0] == "rx":
                a_, b_ = None, None
                for x in w1.log:
                    if x.k == "timers" and x.step == e.step - 1:
                        a_ = x
                    elif x.k == "timers" and x.step == e.step:
                        b_ = x
                if a_ is not None and b_ is not None and len(b_.d["pending"]) != len(a_.d["pending"]) - 1:
                    vd.bad("C03.packet_without_effect", "PINGRESP for an outstanding PINGREQ did not cancel the deadline (%d timers before, %d after)" % (
                        len(a_.d["pending"]), len(b_.d["pending"])))
            elif d[0] == "PUBLISH" and (w1.cfg["profile"] & 1):
                want = {0: None, 1: "PUBACK", 2: "PUBREC"}[d[1]]
                if want and not any(x.k == "write" and any(fr[0] == want for fr in x.d["frames"]) for x in evs):
                    vd.bad("C03.packet_without_effect", "PUBLISH qos %d not answered with %s" % (d[1], want))

    def check_case(self, case):
        cfg, setup, stream, cutspec = case
        setup = [tup(o) for o in setup]
        stream = [tup(o) for o in stream]
        vd = Verdict()
        ref = self.reference(cfg, setup, stream)
        self.expected_effects(vd, ref)
        self.compare(vd, cfg, setup, stream, cutspec, ref)
        return vd

    def shrink(self, case, rule):
        cfg, setup, stream, cutspec = case
        if len(stream) > 300 or cfg.get("big"):
            return case          # the hand-built flood / 2 MB blocks: every evaluation costs seconds

        def fails_stream(st_):
            return any(v.rule == rule for v in self.check_case((cfg, setup, st_, cutspec)).viols)
        stream = ddmin(list(stream), fails_stream, budget=300)

        def fails_setup(su):
            return any(v.rule == rule for v in self.check_case((cfg, su, stream, cutspec)).viols)
        setup = ddmin(list(setup), fails_setup, budget=300)
        # explicit cuts
        ref = self.reference(cfg, [tup(o) for o in setup], [tup(o) for o in stream])
        cuts = self.cuts_from(cutspec, ref[2]) if ref[2] else []

        def fails_cuts(cs):
            return any(v.rule == rule for v in self.check_case((cfg, setup, stream, list(cs))).viols)
        if cuts and fails_cuts(cuts):
            cuts = ddmin(cuts, fails_cuts, budget=200)
            return (cfg, setup, stream, list(cuts))
        return (cfg, setup, stream, cutspec)

    # -- exhaustive compositions of short streams
    SHORT = [
        ([("publish", 0, 1), ("publish", 0, 2)], [("rx", 0, "PUBACK", 0, 0, 0), ("rx", 0, "PUBREC", 0, 0, 0), ("rx", 0, "PUBCOMP", 0, 0, 0)]),
        ([("publish", 0, 1)], [("rx", 0, "PINGRESP"), ("rx", 0, "PUBACK", 0, 0, 0), ("rx", 0, "PINGRESP"), ("rx", 0, "PUBACK", 4, 0, 0)]),
        ([("subscribe", 0, 0, 1, 1)], [("rx", 0, "SUBACK", 0, 1, 0), ("rx", 0, "PINGRESP"), ("rx", 0, "PUBACK", 4, 0, 0)]),
        ([("unsubscribe", 0, 0, 1, 0), ("rx", 0, "PUBLISH", 2, 0, 1)], [("rx", 0, "UNSUBACK", 0, 0, 0), ("rx", 0, "PUBREL", 0, 0, 0), ("rx", 0, "PUBREL", 3, 0, 0)]),
        ([], [("rx", 0, "PUBLISH", 0, 12, 0), ("rx", 0, "PINGRESP")]),
        ([], [("rx", 0, "PUBLISH", 1, 12, 0)]),
        ([], [("rx", 0, "PUBLISH", 2, 12, 0), ("rx", 0, "PUBREL", 0, 0, 0)]),
    ]

    def exhaustive_specs(self, tier, seed):
        self.max_exhaustive_bytes = 14 if tier == "quick" else 17
        specs = [("short", i, j, self.max_exhaustive_bytes) for i in range(len(self.SHORT)) for j in range(2)]
        specs += [("connack", k) for k in range(2)]
        specs += [("long", i) for i in range(4 if tier == "quick" else 8)]
        specs += [("bigsuback", i) for i in range(2 if tier == "quick" else 6)]
        # 4-byte remaining length (2.1 MB payload): every 1-cut around the header; thorough adds pairs of cuts
        specs += [("huge", i) for i in range(1 if tier == "quick" else 2)]
        # thousands of complete packets in one segment (a bulk of retained or queued messages)
        specs += [("flood", i) for i in range(2 if tier == "quick" else 4)]
        self.pairs_for_huge = tier != "quick"
        return specs

    def run_exhaustive(self, spec, res):
        cfg = dict(profile=3, version=4, jitter=0.25)
        if spec[0] == "short":
            self.max_exhaustive_bytes = spec[3]
            setup_extra, stream = self.SHORT[spec[1]]
            if spec[2]:
                cfg = dict(profile=3, version=3, jitter=0.0)
            setup = G.preamble(cfg, dict(window=4, keepalive=7 if spec[1] in (1, 4) else 0)) + setup_extra
        elif spec[0] == "connack":
            setup = [("build", 0), ("handlers", 0, 7), ("connect", 0, 7 * spec[1], 1, 0), ("publish", 0, 1)]
            stream = [("rx", 0, "CONNACK", 0, 1), ("rx", 0, "PUBACK", 0, 0, 0), ("rx", 0, "PUBLISH", 0, 0, 0)]
        elif spec[0] == "bigsuback":
            # the only broker packets besides PUBLISH that can need a two-byte remaining length
            n_topics = [126, 127, 130, 200, 253, 254][spec[1] % 6]
            cfg = dict(profile=3 if spec[1] % 2 == 0 else 1, version=4, jitter=0.25)
            setup = G.preamble(cfg, dict(window=4)) + [("subscribe", 0, 2, n_topics, 0x1b)]
            stream = [("rx", 0, "SUBACK", 0, 0x1b, 0), ("rx", 0, "PUBLISH", 1, 4, 0), ("rx", 0, "PINGRESP")]
        elif spec[0] == "huge":
            cfg = dict(profile=3, version=4, jitter=0.25, big=True)
            setup = G.preamble(cfg, dict(window=4)) + [("publish", 0, 1)]
            stream = [("rx", 0, "PUBACK", 0, 0, 0), ("rx", 0, "PUBLISH", 1 + spec[1] % 2, (7 << 4) | 4, 0), ("rx", 0, "PINGRESP")]
        elif spec[0] == "flood":
            cfg = dict(profile=3 if spec[1] % 2 == 0 else 1, version=4 if spec[1] < 2 else 3, jitter=0.25)
            n_pk = [2500, 4000, 7000, 3000][spec[1] % 4]
            setup = G.preamble(cfg, dict(window=4, keepalive=7))
            stream = []
            for j in range(n_pk):
                stream.append(("rx", 0, "PUBLISH", (j % 3) % 2 if spec[1] % 2 == 0 else 0, 0, 0) if j % 5 else ("rx", 0, "PINGRESP"))
        else:
            # long packets: 2- and 3-byte (thorough: 4-byte) remaining lengths, every 1-cut near the header and a stride elsewhere
            size_bits = [(3 << 4), (4 << 4), (5 << 4), (4 << 4) | 1, (3 << 4), (5 << 4), (4 << 4), (3 << 4)][spec[1] % 8]
            setup = G.preamble(cfg, dict(window=4)) + [("publish", 0, 1)]
            stream = [("rx", 0, "PUBACK", 0, 0, 0), ("rx", 0, "PUBLISH", 1 + spec[1] % 2, size_bits | 4, 0), ("rx", 0, "PINGRESP"),
                      ("rx", 0, "PUBLISH", 0, size_bits, 0)]
        ref = self.reference(cfg, setup, stream)
        data = ref[2]
        total = sum(len(d) for d in data)
        n = 0
        if spec[0] == "flood":
            bounds = []
            acc = 0
            for d in data:
                bounds.append(acc)
                acc += len(d)
            for cuts in ([], [bounds[len(bounds) // 2]], [bounds[len(bounds) // 3] + 1, bounds[-1] + 1], bounds[100::100]):
                vd = Verdict()
                self.compare(vd, cfg, setup, stream, list(cuts), ref)
                res.add("exhaustive:flood", (cfg, setup, stream, list(cuts)), vd)
                n += 1
            res.exhaustive["flood%s/%d_packets" % (spec[1:], len(data))] = n
        elif spec[0] in ("short", "connack") and total <= self.max_exhaustive_bytes:
            lim = total - 1
            for mask in range(1 << lim):
                cuts = [i + 1 for i in range(lim) if (mask >> i) & 1]
                vd = Verdict()
                self.compare(vd, cfg, setup, stream, cuts, ref)
                res.add("exhaustive:compositions", (cfg, setup, stream, cuts), vd)
                n += 1
            res.exhaustive["%s%s/%d_bytes_all_compositions" % (spec[0], spec[1:], total)] = n
        else:
            bounds = []
            acc = 0
            for d in data:
                bounds.append(acc)
                acc += len(d)
            ones = set()
            for b in bounds:
                ones.update(range(max(1, b - 3), min(total, b + 8)))
            ones.update(range(1, total, max(1, total // (200 if total < 1000000 else 12))))
            if spec[0] == "bigsuback":
                ones.update(range(1, total))
            for c in sorted(ones):
                vd = Verdict()
                self.compare(vd, cfg, setup, stream, [c], ref)
                res.add("exhaustive:one_cut", (cfg, setup, stream, [c]), vd)
                n += 1
            near = sorted(x for x in ones if any(abs(x - b) <= (5 if total < 1000000 else 3) for b in bounds))
            if spec[0] == "huge" and not getattr(self, "pairs_for_huge", True):
                near = []
            for c1, c2 in itertools.combinations(near, 2):
                vd = Verdict()
                self.compare(vd, cfg, setup, stream, [c1, c2], ref)
                res.add("exhaustive:two_cuts", (cfg, setup, stream, [c1, c2]), vd)
                n += 1
            res.exhaustive["%s%s/%d_bytes_cuts" % (spec[0], spec[1:], total)] = n
        return res



# ====================================================================== C14

def rude_cfg(profiles=(1, 2, 3)):
    return st.fixed_dictionaries({
        "profile": st.sampled_from(profiles), "version": st.sampled_from([4, 4, 3]),
        "jitter": st.sampled_from([0.25, 0.0, 0.999]), "rude": st.just(True), "use_lost": st.just(True),
    })


def o_rude_packet(ad, a, b, c):
    k = ["CONNACK", "PINGRESP", "SUBACK", "UNSUBACK", "PUBLISH", "PUBREL", "PUBACK", "PUBREC", "PUBCOMP"][a % 9]
    if k == "CONNACK":
        return [("rx", ad, "CONNACK", [0, 0, 5, 2][b % 4], c & 1)]
    if k == "PINGRESP":
        return [("rx", ad, "PINGRESP")]
    if k == "PUBLISH":
        return [("rx", ad, "PUBLISH", b % 3, c & 0x0f, c >> 4)]
    return [("rx", ad, k, [4, 0, 3][b % 3], c, 0)]


T_PROBE = G.Table([
    (6, G.o_publish), (4, G.o_subscribe), (3, G.o_unsubscribe), (4, G.o_connect), (3, G.o_disconnect), (12, o_rude_packet),
    (4, G.o_ack_good), (3, G.o_connack), (3, G.o_lose), (3, G.o_build), (2, G.o_reconnect), (1, G.o_reconnect_noack),
    (2, G.o_fire), (2, G.o_advance), (1, G.o_handlers), (1, G.o_window), (3, G.o_arm),
])


class C14(SessionProp):
    id = "C14"
    monitor = staticmethod(M.mon_c14)
    table = T_PROBE
    max_words = 35
    pre_kwargs = dict(connack=(True, False, True))
    rule = ("Exhaustive matrix: 3 profiles x {idle (new), connecting, connected, connected with requests pending, "
            "idle after loss, idle after a refused CONNACK} x {connect, disconnect, publish q0/q1/q2, subscribe, "
            "unsubscribe} and x the nine broker packet types (a 'rude' broker that sends anything in any state); "
            "generated: the same probes at every point of random histories. Oracle (table from the statement): an "
            "operation allowed in that state and profile is not refused with MQTTStateError and takes effect; a "
            "forbidden one fails with MQTTStateError (raised by disconnect()), writes nothing, changes neither "
            "protocol.state nor the pending timers nor any other Deferred; a broker packet that does not belong to "
            "the state/profile has no effect at all. Non-trivial = any cell other than connected publisher x "
            "subscribe/unsubscribe (what the suite has); distinct = distinct case hash.")

    def strategy(self, tier):
        tb = self.table

        def mk(cfg, pre, ws):
            return (cfg, G.preamble(cfg, pre) + tb.decode(ws))
        return st.builds(mk, rude_cfg(), G.pre_strategy(**self.pre_kwargs), G.words(self.max_words if tier == "quick" else 70))

    def check_case(self, case):
        cfg, ops = case
        ops = [tup(o) if not (isinstance(o, (list, tuple)) and o and o[0] == "call") else tuple(o) for o in ops]
        w = sim.run_case(dict(cfg), ops)
        vd = Verdict()
        if w.too_big:
            return vd
        F = Facts(w)
        M.mon_c14(w, F, vd)
        # a forbidden operation has no effect at all: the history must be what it is without it (twin run)
        forb = getattr(w, "c14_forbidden", [])
        if forb and not vd.viols:
            steps = set(st_ for st_, _ in forb)
            # ops_done holds the executed steps incl. flush pseudo-steps; map back to the given op list
            keep, k = [], 0
            for st_, o in enumerate(w.ops_done):
                if o and o[0] == "flush" and (k >= len(ops) or ops[k] != o):
                    continue
                keep.append(ops[k] if st_ not in steps else ("flush",))   # still the end of a coalesced segment
                k += 1
            tw = sim.run_case(dict(cfg), keep)
            skip = set(r for _, r in forb)
            va, vb = address_view(w, 0, skip_rids=skip), address_view(tw, 0)
            if va != vb:
                j = next((i for i in range(min(len(va), len(vb))) if va[i] != vb[i]), min(len(va), len(vb)))
                vd.bad("C14.forbidden_left_trace", "after a refused operation the history differs from the run without it: event %d is %s, without %s" % (
                    j, repr(va[j])[:150] if j < len(va) else "<nothing>", repr(vb[j])[:150] if j < len(vb) else "<nothing>"))
        return vd

    STATES = [
        ("idle_new", [("build", 0), ("handlers", 0, 7)]),
        ("connecting", [("build", 0), ("handlers", 0, 7), ("connect", 0, 0, 1, 0)]),
        ("connected", [("build", 0), ("handlers", 0, 7), ("connect", 0, 7, 1, 0), ("rx", 0, "CONNACK", 0, 0)]),
        ("connected_pending", [("build", 0), ("handlers", 0, 7), ("window", 0, 4), ("connect", 0, 0, 0, 0), ("rx", 0, "CONNACK", 0, 0),
                               ("publish", 0, 1), ("publish", 0, 2), ("subscribe", 0, 0, 1, 1), ("unsubscribe", 0, 0, 1, 0),
                               ("rx", 0, "PUBLISH", 2, 0, 1)]),
        ("idle_lost", [("build", 0), ("handlers", 0, 7), ("connect", 0, 0, 1, 0), ("rx", 0, "CONNACK", 0, 0), ("publish", 0, 1), ("lose", 0, 1)]),
        ("idle_refused", [("build", 0), ("handlers", 0, 7), ("connect", 0, 0, 1, 0), ("rx", 0, "CONNACK", 5, 0)]),
    ]
    PROBES = [
        [("connect", 0, 0, 1, 0)], [("connect", 0, 7, 0, 7)], [("disconnect", 0)], [("publish", 0, 0)], [("publish", 0, 1)],
        [("publish", 0, 2)], [("subscribe", 0, 0, 1, 1)], [("subscribe", 0, 2, 2, 6)], [("unsubscribe", 0, 0, 1, 0)],
        [("unsubscribe", 0, 1, 2, 0)],
        [("rx", 0, "CONNACK", 0, 0)], [("rx", 0, "CONNACK", 5, 1)], [("rx", 0, "PINGRESP")], [("rx", 0, "SUBACK", 4, 0, 0)],
        [("rx", 0, "SUBACK", 0, 0, 0)], [("rx", 0, "UNSUBACK", 4, 0, 0)], [("rx", 0, "UNSUBACK", 0, 0, 0)],
        [("rx", 0, "PUBLISH", 0, 0, 0)], [("rx", 0, "PUBLISH", 1, 0, 0)], [("rx", 0, "PUBLISH", 2, 0, 0)], [("rx", 0, "PUBREL", 4, 0, 0)],
        [("rx", 0, "PUBREL", 0, 0, 0)], [("rx", 0, "PUBACK", 4, 0, 0)], [("rx", 0, "PUBACK", 0, 0, 0)], [("rx", 0, "PUBREC", 4, 0, 0)],
        [("rx", 0, "PUBREC", 0, 0, 0)], [("rx", 0, "PUBCOMP", 4, 0, 0)], [("rx", 0, "PUBCOMP", 5, 0, 0)],
        # an operation refused for its arguments has no effect on what is allowed next
        [("call", 0, "connect", [], {"clientId": "c", "keepalive": 0, "username": ["@str", "u", 65536]}, "reject"), ("connect", 0, 0, 1, 0)],
        [("call", 0, "connect", [], {"clientId": "c", "keepalive": 0, "willTopic": "w", "willMessage": ["@str", "€", 65538]}, "reject"),
         ("publish", 0, 1), ("connect", 0, 7, 0, 0)],
        [("call", 0, "connect", [], {"clientId": "c", "keepalive": 70000}, "reject"), ("connect", 0, 0, 1, 0)],
        [("call", 0, "publish", ["t", ["@bytes", "00"]], {"qos": 1}, "reject"), ("publish", 0, 1)],
        [("call", 0, "subscribe", [5], {}, "reject"), ("subscribe", 0, 0, 1, 1)],
    ]

    def exhaustive_specs(self, tier, seed):
        return [("matrix", p, v) for p in (1, 2, 3) for v in (3, 4)]

    def run_exhaustive(self, spec, res):
        _, p, v = spec
        cfg = dict(profile=p, version=v, jitter=0.25, rude=True, use_lost=True)
        n = 0
        for name, setup in self.STATES:
            for pr in self.PROBES:
                for second in ([], self.PROBES[(n * 7) % len(self.PROBES)],
                               [("fire", 1), ("lose", 0, 1), ("build", 0), ("handlers", 0, 7), ("connect", 0, 0, n % 2, 0), ("rx", 0, "CONNACK", 0, 0), ("settle", 0)]):
                    ops = list(setup) + list(pr) + list(second) + [("advance", 5)]
                    case = (cfg, ops)
                    res.add("exhaustive:matrix", case, self.check_case(case))
                    n += 1
        res.exhaustive["matrix/profile%d/v%d" % (p, v)] = n
        return res


# ====================================================================== C20

LONG = 65535


def _s(unit, n):
    return ["@str", unit, n]


C20_SETTERS = [
    ("setWindowSize", [1], {}, "accept"), ("setWindowSize", [2], {}, "accept"), ("setWindowSize", [16], {}, "accept"),
    ("setWindowSize", [0], {}, "reject"), ("setWindowSize", [17], {}, "reject"), ("setWindowSize", [-1], {}, "reject"),
    ("setWindowSize", [1000], {}, "reject"), ("setWindowSize", [["@none"]], {}, "reject_any"), ("setWindowSize", ["3"], {}, "reject_any"),
    ("setTimeout", [1], {}, "accept"), ("setTimeout", [4], {}, "accept"), ("setTimeout", [1024], {}, "accept"),
    ("setTimeout", [0], {}, "reject"), ("setTimeout", [1025], {}, "reject"), ("setTimeout", [-1], {}, "reject"),
    ("setTimeout", [["@none"]], {}, "reject_any"),
    # just outside the interval on both sides, for callers that compute the value
    ("setWindowSize", [["@float", 0.5]], {}, "reject"), ("setWindowSize", [["@float", 0.999]], {}, "reject"),
    ("setWindowSize", [["@float", 16.5]], {}, "reject"), ("setTimeout", [["@float", 0.5]], {}, "reject"),
    ("setTimeout", [["@float", 1024.5]], {}, "reject"),
    ("setBandwith", [["@float", 1e-9]], {}, "accept"), ("setBandwith", [1, 1], {}, "accept"), ("setBandwith", [["@float", 1e12], 2], {}, "accept"),
    ("setBandwith", [10000], {"factor": 4}, "accept"),
    ("setBandwith", [0], {}, "reject"), ("setBandwith", [-1], {}, "reject"), ("setBandwith", [1, 0], {}, "reject"),
    ("setBandwith", [1, -1], {}, "reject"), ("setBandwith", [["@float", -0.5], 2], {}, "reject"), ("setBandwith", [100], {"factor": -2}, "reject"),
]


def _conn(expect, **kw):
    base = {"clientId": "c20", "keepalive": 0, "cleanStart": True, "version": ["@v311"]}
    base.update(kw)
    return ("connect", [], base, expect)


C20_CONNECT = [
    _conn("accept"), _conn("accept", keepalive=65535), _conn("accept", keepalive=1), _conn("reject", keepalive=-1),
    _conn("reject", keepalive=65536), _conn("reject", keepalive=2 ** 31),
    _conn("accept", willTopic="w", willMessage="m", willQoS=0), _conn("accept", willTopic="w", willMessage="m", willQoS=2, willRetain=True),
    _conn("reject", willTopic="w", willMessage="m", willQoS=3), _conn("reject", willTopic="w", willMessage="m", willQoS=-1),
    _conn("reject", willQoS=3), _conn("reject", willQoS=-1),
    _conn("accept", version=["@v31"], clientId="x" * 23), _conn("reject", version=["@v31"], clientId="x" * 24),
    _conn("accept", version=["@v311"], clientId="x" * 24), _conn("accept", version=["@v31"], clientId=""),
    # the limit is in characters: 23 of them may take more than 23 bytes
    _conn("accept", version=["@v31"], clientId="a" * 22 + "\u00e9"), _conn("accept", version=["@v31"], clientId="\u00fc" * 23),
    _conn("reject", version=["@v31"], clientId="\u00fc" * 24),
    _conn("reject", version=0), _conn("reject", version=["@none"]), _conn("reject", version=["@dict", [["level", 5], ["tag", "MQTT"]]]),
    _conn("reject", version=["@dict", [["level", 4], ["tag", "MQIsdp"]]]),
    _conn("reject", willTopic="w"), _conn("reject", willMessage="m"),
    _conn("reject", password="p"), _conn("accept", username="u", password="pñ"), _conn("accept", username="u"),
    _conn("accept", clientId=_s("a", LONG)), _conn("reject", clientId=_s("a", LONG + 1)),
    _conn("accept", clientId=_s("€", LONG)), _conn("reject", clientId=_s("€", LONG + 3)),
    _conn("accept", willTopic=_s("é", LONG), willMessage="m"), _conn("reject", willTopic=_s("é", LONG + 1), willMessage="m"),
    _conn("accept", willTopic="w", willMessage=_s("m", LONG)), _conn("reject", willTopic="w", willMessage=_s("m", LONG + 1)),
    _conn("accept", username=_s("u", LONG)), _conn("reject", username=_s("u", LONG + 1)),
    _conn("accept", username="u", password=_s("p", LONG)), _conn("reject", username="u", password=_s("p", LONG + 1)),
    _conn("reject", username="u", password=_s("€", LONG + 3)),
    _conn("reject_any", keepalive="x"), _conn("reject_any", clientId=["@none"]),
]

C20_PUBLISH = [
    ("publish", ["t", ["@ba", "6162"]], {"qos": 0}, "accept"), ("publish", ["t", "text-é"], {"qos": 1}, "accept"),
    ("publish", ["t", ["@ba", ""]], {"qos": 2, "retain": True}, "accept"), ("publish", ["t", "x"], {}, "accept"),
    ("publish", ["t", "x"], {"qos": 3}, "reject"), ("publish", ["t", "x"], {"qos": -1}, "reject"), ("publish", ["t", ["@ba", "00"]], {"qos": 4}, "reject"),
    ("publish", ["t", ["@bytes", "6162"]], {"qos": 0}, "reject"), ("publish", ["t", ["@bytes", "6162"]], {"qos": 1}, "reject"),
    ("publish", ["t", 5], {"qos": 1}, "reject"), ("publish", ["t", ["@float", 1.5]], {"qos": 0}, "reject"),
    ("publish", ["t", ["@none"]], {"qos": 2}, "reject"), ("publish", ["t", ["@list", [1, 2]]], {"qos": 1}, "reject"),
    ("publish", [_s("t", LONG), "x"], {"qos": 1}, "accept"), ("publish", [_s("t", LONG + 1), "x"], {"qos": 1}, "reject"),
    ("publish", [_s("€", LONG), "x"], {"qos": 0}, "accept"), ("publish", [_s("€", LONG + 3), "x"], {"qos": 0}, "reject"),
    ("publish", [_s("ñ", LONG + 1), ["@ba", "01"]], {"qos": 2}, "reject"),
    ("publish", [["@none"], "x"], {"qos": 1}, "reject_any"), ("publish", ["t", "x"], {"qos": ["@none"]}, "reject_any"),
    ("publish", [5, "x"], {"qos": 0}, "reject_any"),
]

C20_SUBSCRIBE = [
    ("subscribe", ["a/b"], {"qos": 0}, "accept"), ("subscribe", ["a/b", 2], {}, "accept"), ("subscribe", [["@tuple", ["a/#", 1]]], {}, "accept"),
    ("subscribe", [["@list", [["@tuple", ["a", 0]], ["@tuple", ["bé", 2]]]]], {}, "accept"),
    ("subscribe", ["a/b", 3], {}, "reject"), ("subscribe", ["a/b", -1], {}, "reject"), ("subscribe", [["@tuple", ["a", 3]]], {}, "reject"),
    ("subscribe", [["@list", [["@tuple", ["a", 0]], ["@tuple", ["b", 3]]]]], {}, "reject"),
    ("subscribe", [["@list", [["@tuple", ["a", -1]]]]], {}, "reject"),
    ("subscribe", [5], {}, "reject"), ("subscribe", [["@none"]], {}, "reject"), ("subscribe", [["@bytes", "612f62"]], {}, "reject"),
    ("subscribe", [["@dict", [["a", 1]]]], {}, "reject"), ("subscribe", [["@set", ["a"]]], {}, "reject"),
    ("subscribe", [_s("t", LONG), 1], {}, "accept"), ("subscribe", [_s("t", LONG + 1), 1], {}, "reject"),
    ("subscribe", [["@list", [5]]], {}, "reject_any"), ("subscribe", [["@list", [["@tuple", [5, 1]]]]], {}, "reject_any"),
    ("unsubscribe", ["a/b"], {}, "accept"), ("unsubscribe", [["@list", ["a", "bé"]]], {}, "accept"),
    ("unsubscribe", [5], {}, "reject"), ("unsubscribe", [["@none"]], {}, "reject"), ("unsubscribe", [["@bytes", "61"]], {}, "reject"),
    ("unsubscribe", [["@dict", [["a", 1]]]], {}, "reject"), ("unsubscribe", [["@set", ["a"]]], {}, "reject"),
    ("unsubscribe", [["@tuple", ["a", "b"]]], {}, "reject"),
    ("unsubscribe", [_s("t", LONG)], {}, "accept"), ("unsubscribe", [_s("t", LONG + 1)], {}, "reject"),
    ("unsubscribe", [["@list", [5]]], {}, "reject_any"), ("unsubscribe", [["@list", [["@none"]]]], {}, "reject_any"),
]


def _call(row):
    return ("call", 0, row[0], row[1], row[2], row[3])


C20_STATES = {
    # name -> (setup ops, which tables apply, by profile bit)
    "idle": ([("build", 0), ("handlers", 0, 7)], ("set", "conn")),
    "idle_again": ([("build", 0), ("handlers", 0, 7), ("connect", 0, 0, 1, 0), ("rx", 0, "CONNACK", 0, 0), ("lose", 0, 0), ("build", 0), ("handlers", 0, 7)], ("set", "conn")),
    "connecting": ([("build", 0), ("handlers", 0, 7), ("window", 0, 16), ("connect", 0, 0, 1, 0)], ("set", "pub")),
    "connected": ([("build", 0), ("handlers", 0, 7), ("window", 0, 16), ("connect", 0, 0, 1, 0), ("rx", 0, "CONNACK", 0, 0)], ("set", "pub", "sub")),
    "connected_pending": ([("build", 0), ("handlers", 0, 7), ("window", 0, 16), ("connect", 0, 7, 0, 0), ("rx", 0, "CONNACK", 0, 0),
                           ("publish", 0, 1), ("publish", 0, 2), ("rx", 0, "PUBREC", 0, 0, 0), ("subscribe", 0, 0, 1, 1), ("unsubscribe", 0, 0, 1, 0)],
                          ("set", "pub", "sub")),
}
C20_STATES["idle_with_session"] = (
    [("build", 0), ("handlers", 0, 7), ("window", 0, 4), ("connect", 0, 0, 0, 0), ("rx", 0, "CONNACK", 0, 0), ("publish", 0, 1), ("publish", 0, 2),
     ("rx", 0, "PUBREC", 0, 0, 0), ("lose", 0, 1), ("build", 0), ("handlers", 0, 7)], ("conn2",))
C20_CONNECT2 = [_conn("reject", cleanStart=False, keepalive=-1), _conn("reject", cleanStart=False, willQoS=3),
                _conn("reject", cleanStart=False, version=0), _conn("reject", cleanStart=False, password="p"),
                _conn("reject", cleanStart=False, username=_s("u", LONG + 1)), _conn("reject", cleanStart=False, willTopic="w"),
                _conn("reject", cleanStart=True, keepalive=65536), _conn("reject", cleanStart=False, version=["@v31"], clientId="x" * 24),
                _conn("reject", cleanStart=False, clientId=_s("\u20ac", LONG + 3))]
C20_SUFFIX_SESSION = [("lose", 0, 0), ("build", 0), ("handlers", 0, 7), ("connect", 0, 0, 0, 0), ("rx", 0, "CONNACK", 0, 1), ("settle", 0), ("advance", 5)]
C20_TABLES = {"set": C20_SETTERS, "conn": C20_CONNECT, "pub": C20_PUBLISH, "sub": C20_SUBSCRIBE, "conn2": C20_CONNECT2}
C20_SUFFIX = [("publish", 0, 1), ("subscribe", 0, 0, 1, 1), ("settle", 0), ("publish", 0, 2), ("fire", 1), ("settle", 0), ("advance", 5)]
C20_SUFFIX_IDLE = [("connect", 0, 0, 1, 0), ("rx", 0, "CONNACK", 0, 0), ("publish", 0, 1), ("settle", 0), ("advance", 5)]


class C20(SessionProp):
    id = "C20"
    monitor = staticmethod(M.mon_c20)
    rule = ("Tables of (entry point, argument values, verdict): lowest/highest accepted, first rejected on both "
            "sides, interior, wrong types and None for setWindowSize, setTimeout, setBandwith, every connect() "
            "argument (incl. strings of exactly 65535 / 65536+ bytes, ASCII and multi-byte), publish(), subscribe() "
            "in its three shapes and unsubscribe() in two; every row is tried exhaustively in every state and "
            "profile in which the call is otherwise allowed (idle, idle again, connecting, connected, connected "
            "with requests pending), and Hypothesis inserts rows at random points of generated histories. Oracle: "
            "listed-invalid => setters raise ValueError, the others return a Deferred already failed with "
            "ValueError/TypeError; nothing written, no timer change, protocol.state unchanged, and (twin run) the "
            "rest of the history behaves exactly as without the rejected call (ids renamed); in-range => accepted. "
            "Non-trivial = every case with at least one table row (the suite has ~20 of them, none checking "
            "atomicity); distinct = distinct case hash.")

    def applicable(self, tables, prof):
        rows = []
        for t in tables:
            if t == "pub" and not (prof & 2):
                continue
            if t == "sub" and not (prof & 1):
                continue
            rows += C20_TABLES[t]
        return rows

    def check_case(self, case):
        cfg, ops = case
        ops = [tup(o) if not (isinstance(o, (list, tuple)) and o and o[0] == "call") else tuple(o) for o in ops]
        w = sim.run_case(dict(cfg), ops)
        vd = Verdict()
        if w.too_big:
            return vd
        F = Facts(w)
        M.mon_c20(w, F, vd)
        # twin run without the rejected calls
        rej = [i for i, o in enumerate(ops) if o[0] == "call" and o[5] in ("reject", "reject_any")]
        if rej:
            # (the removed call still ends a coalesced segment where it stood: what the broker sends next
            # depends on what has been delivered)
            twin_ops = [o if i not in rej else ("flush",) for i, o in enumerate(ops)]
            tw = sim.run_case(dict(cfg), twin_ops)
            skip = set(r.rid for r in w.reqs if getattr(r, "expect", None) in ("reject", "reject_any"))
            va = address_view(w, 0, skip_rids=skip)
            vb = address_view(tw, 0)
            if va != vb:
                j = next((k for k in range(min(len(va), len(vb))) if va[k] != vb[k]), min(len(va), len(vb)))
                vd.bad("C20.rejected_left_trace", "after a rejected call the history differs from the run without it: event %d is %s, without the call %s" % (
                    j, repr(va[j])[:150] if j < len(va) else "<nothing>", repr(vb[j])[:150] if j < len(vb) else "<nothing>"))
        return vd

    def strategy(self, tier):
        def mk(cfg, pre, ws, rows, poss):
            ops = G.preamble(cfg, dict(pre, window=16)) + T_MIX.decode(ws)
            allrows = C20_SETTERS + (C20_PUBLISH if cfg["profile"] & 2 else []) + (C20_SUBSCRIBE if cfg["profile"] & 1 else []) + C20_CONNECT
            for r, pz in zip(rows, poss):
                ops.insert(pz % (len(ops) + 1), _call(allrows[r % len(allrows)]))
            return (cfg, ops + [("settle", 0), ("advance", 5)])
        return st.builds(mk, G.cfg_strategy(), G.pre_strategy(), G.words(20), st.lists(st.integers(0, 10 ** 6), min_size=1, max_size=4),
                         st.lists(st.integers(0, 10 ** 6), min_size=4, max_size=4))

    def exhaustive_specs(self, tier, seed):
        return [("table", p, v, name) for p in (1, 2, 3) for v in (4, 3) for name in C20_STATES]

    def run_exhaustive(self, spec, res):
        _, p, v, name = spec
        cfg = dict(profile=p, version=v, jitter=0.25)
        setup, tables = C20_STATES[name]
        rows = self.applicable(tables, p)
        n = 0
        for row in rows:
            suffix = C20_SUFFIX_SESSION if name == "idle_with_session" else C20_SUFFIX_IDLE if name.startswith("idle") else C20_SUFFIX
            if row[0] == "connect" and row[3] == "accept":
                suffix = [("rx", 0, "CONNACK", 0, 0), ("advance", 5)]
            ops = list(setup) + [_call(row)] + list(suffix)
            case = (cfg, ops)
            res.add("exhaustive:table", case, self.check_case(case))
            n += 1
        res.exhaustive["table/profile%d/v%d/%s" % (p, v, name)] = n
        return res


# ====================================================================== C16

C16_STATES = [
    ("connecting", [("build", 0), ("handlers", 0, 7), ("window", 0, 4), ("connect", 0, 0, 1, 0), ("publish", 0, 1)]),
    ("connected", [("build", 0), ("handlers", 0, 7), ("window", 0, 4), ("connect", 0, 7, 1, 0), ("rx", 0, "CONNACK", 0, 0),
                   ("publish", 0, 1), ("publish", 0, 2), ("rx", 0, "PUBREC", 0, 0, 0), ("publish", 0, 2), ("subscribe", 0, 0, 1, 1),
                   ("unsubscribe", 0, 0, 1, 0), ("rx", 0, "PUBLISH", 2, 0, 1)]),
    ("connected_persistent", [("build", 0), ("handlers", 0, 7), ("window", 0, 4), ("connect", 0, 0, 0, 0), ("rx", 0, "CONNACK", 0, 1),
                              ("publish", 0, 2), ("rx", 0, "PUBREC", 0, 0, 0), ("publish", 0, 1), ("subscribe", 0, 2, 2, 6), ("rx", 0, "PUBLISH", 2, 0, 2)]),
]
C16_STATES.append(
    ("resuming_persistent", [("build", 0), ("handlers", 0, 7), ("window", 0, 4), ("connect", 0, 0, 0, 0), ("rx", 0, "CONNACK", 0, 0),
                             ("publish", 0, 1), ("publish", 0, 2), ("rx", 0, "PUBREC", 0, 0, 0), ("publish", 0, 2), ("subscribe", 0, 0, 1, 1),
                             ("lose", 0, 1), ("build", 0), ("handlers", 0, 7), ("window", 0, 4), ("connect", 0, 0, 0, 0)]))
C16_STATES.append(
    ("two_brokers", [("build", 1), ("handlers", 1, 7), ("window", 1, 4), ("connect", 1, 0, 1, 0), ("rx", 1, "CONNACK", 0, 0),
                     ("publish", 1, 1), ("publish", 1, 2), ("rx", 1, "PUBREC", 0, 0, 0), ("publish", 1, 2), ("subscribe", 1, 0, 1, 1),
                     ("unsubscribe", 1, 0, 1, 0),
                     ("build", 0), ("handlers", 0, 7), ("window", 0, 4), ("connect", 0, 7, 1, 0), ("rx", 0, "CONNACK", 0, 0), ("publish", 0, 1)]))
C16_TAIL = [("lose", 0, 1), ("idle", 60.0)]
_POOLS = {}


def c16_pool(profile, version, state_i):
    """valid broker packets that mean something in the given state (ids read from a dry run of the setup)"""
    key = (profile, version, state_i)
    if key in _POOLS:
        return _POOLS[key]
    from . import refcodec as R
    cfg = dict(profile=profile, version=version, jitter=0.25, rude=True)
    w = sim.run_case(cfg, C16_STATES[state_i][1])
    conn = w.conns[0]         # the connection on which the requests were made (ids are what matters)
    ver = version
    pool = [R.ref_encode("CONNACK", dict(session_present=False, code=0), ver), R.ref_encode("CONNACK", dict(session_present=True, code=5), ver),
            R.ref_encode("PINGRESP", {}, ver)]
    for i in (conn.b_q1[:1] or [11]):
        pool.append(R.ref_encode("PUBACK", dict(id=i), ver))
    for i in (conn.b_q2[:1] or [12]):
        pool.append(R.ref_encode("PUBREC", dict(id=i), ver))
    for i in (conn.b_rel[:1] or [13]):
        pool.append(R.ref_encode("PUBCOMP", dict(id=i), ver))
    for i in (list(conn.b_sub)[:1] or [14]):
        pool.append(R.ref_encode("SUBACK", dict(id=i, codes=[1, 0x80]), ver))
    for i in (conn.b_unsub[:1] or [15]):
        pool.append(R.ref_encode("UNSUBACK", dict(id=i), ver))
    for i in (list(w.in_q2[0])[:1] or [1]):
        pool.append(R.ref_encode("PUBREL", dict(id=i), ver))
    # acknowledgements of the wrong type for an exchange that is pending
    for i in conn.b_q2[:1] + conn.b_rel[:1]:
        pool.append(R.ref_encode("PUBACK", dict(id=i), ver))
    for i in conn.b_q1[:1]:
        pool.append(R.ref_encode("PUBREC", dict(id=i), ver))
        pool.append(R.ref_encode("PUBCOMP", dict(id=i), ver))
    for i in conn.b_q2[:1]:
        pool.append(R.ref_encode("PUBCOMP", dict(id=i), ver))
    pool.append(R.ref_encode("PUBLISH", dict(topic="a/b", payload=b"hi", qos=0, dup=False, retain=False, id=None), ver))
    pool.append(R.ref_encode("PUBLISH", dict(topic="t/é", payload=b"hello", qos=1, dup=False, retain=True, id=7), ver))
    pool.append(R.ref_encode("PUBLISH", dict(topic="x", payload=b"", qos=2, dup=True, retain=False, id=9), ver))
    pool.append(R.ref_encode("PUBLISH", dict(topic="big", payload=b"z" * 200, qos=1, dup=False, retain=False, id=8), ver))
    _POOLS[key] = pool
    return pool


def mutations(pkt):
    """single-byte replacements, truncations (with and without a fixed length byte), extensions"""
    out = []
    for nib in range(16):                       # every flag nibble on the first byte (reserved bits, QoS 3, DUP ...)
        v = (pkt[0] & 0xF0) | nib
        if v != pkt[0]:
            out.append(bytes([v]) + pkt[1:])
    for i in range(len(pkt)):
        for v in (0x00, 0xFF, pkt[i] ^ 0x01, pkt[i] ^ 0x80):
            if v != pkt[i]:
                out.append(pkt[:i] + bytes([v]) + pkt[i + 1:])
    if len(pkt) < 128:
        for n in range(1, len(pkt)):
            out.append(pkt[:n])                                  # truncated, length field untouched (incomplete)
            if n >= 2:
                out.append(pkt[:1] + bytes([n - 2]) + pkt[2:n])     # truncated with the length fixed
        for ext in (b"\x00", b"\xff\xff", b"\x00\x01\x02"):
            out.append(pkt[:1] + bytes([len(pkt) - 2 + len(ext)]) + pkt[2:] + ext)   # extended, length fixed
            out.append(pkt + ext)                                 # extended, next frame is junk
    return out


class C16(SessionProp):
    id = "C16"
    monitor = staticmethod(M.mon_c16)
    profiles = (1, 2, 3)
    rule = ("Frames injected into 3 profiles x {connecting, connected clean, connected persistent} with publishes in "
            "every stage, a subscribe, an unsubscribe and an inbound QoS 2 message pending; then the connection is "
            "lost and an idle tail runs. Exhaustive: every first byte 0..255 x every body of length 0..3 (thorough "
            "0..4) over {00,01,02,7F,80,FF} with a correct length byte, and with the length byte itself drawn from "
            "the alphabet; every packet of a pool of ~13 valid broker packets with each byte replaced by 00/FF/^01/"
            "^80, truncated at every length with and without fixing the length, extended by 1..3 bytes. Generated: "
            "streams mixing valid packets, mutated packets and random bytes with timer expiries and acks. Oracle: no "
            "exception out of dataReceived/connectionLost/timers; the only transport reaction is abortConnection; "
            "frames the strict reference decoder calls hard-malformed (truncated, overrunning, invalid UTF-8, QoS 3, "
            "reserved or broker-bound types) cause no onPublish, no Deferred success and no write; after the loss of "
            "a clean session nothing stays pending. Non-trivial = a hard-malformed frame or an unsolicited ack "
            "injected with at least one request pending.")

    def frame_case(self, cfg, state_i, frame):
        return (cfg, list(C16_STATES[state_i][1]) + [("raw", 0, frame.hex())] + C16_TAIL)

    def strategy(self, tier):
        def mk(cfg, state_i, items, ws):
            pool = c16_pool(cfg["profile"], cfg["version"], state_i)
            ops = list(C16_STATES[state_i][1])
            extra = T_MIX.decode(ws)
            held = None
            for kind, x, y, z in items:
                if kind == 0:
                    fr = pool[x % len(pool)]
                elif kind == 1:
                    m = mutations(pool[x % len(pool)])
                    fr = m[y % len(m)]
                elif kind == 2:
                    fr = bytes([x, len(z) & 0x7F]) + z
                else:
                    fr = z
                # some frames share a TCP segment with the one that follows: what comes behind a packet that
                # makes the client abort is still in the buffer
                if (y >> 4) & 1 and held is not None:
                    held += fr
                    continue
                if held is not None:
                    ops.append(("raw", 0, held.hex()))
                held = fr
                if extra and (y & 3) == 0:
                    ops.append(("raw", 0, held.hex()))
                    held = None
                    ops.append(extra.pop())
            if held is not None:
                ops.append(("raw", 0, held.hex()))
            return (cfg, ops + C16_TAIL)
        items = st.lists(st.tuples(st.integers(0, 3), st.integers(0, 255), st.integers(0, 10 ** 6), st.binary(max_size=12)), min_size=1, max_size=5)
        return st.builds(mk, rude_cfg(), st.integers(0, len(C16_STATES) - 1), items, G.words(4))

    ALPHA = [0x00, 0x01, 0x02, 0x7F, 0x80, 0xFF]

    def exhaustive_specs(self, tier, seed):
        specs = []
        for p in (1, 2, 3):
            for si in range(len(C16_STATES)):
                for lo in range(0, 256, 32):
                    # quick: bodies up to 2 bytes everywhere and up to 3 on the pub/sub profile, connected clean
                    ml = (3 if (p == 3 and si == 1) else 1 if si >= 3 else 2) if tier == "quick" else 4
                    specs.append(("bytes", p, si, lo, lo + 32, ml))
                specs.append(("mut", p, si, 4 if (p + si) % 2 else 3))
        if tier != "quick":
            specs += [("fuzz", i, seed, 150000) for i in range(16)]
        return specs

    def run_fuzz(self, spec, res):
        """coverage-guided campaign (atheris/libFuzzer) in a subprocess; half of the shards start from an empty
        corpus, half from a corpus of valid broker packets"""
        import shutil
        import subprocess
        import tempfile
        from .core import VERIF
        _, i, seed, runs = spec
        base = os.path.join(VERIF, ".fuzz")
        os.makedirs(base, exist_ok=True)
        d = tempfile.mkdtemp(prefix="c16-", dir=base)
        try:
            corpus = os.path.join(d, "corpus")
            os.makedirs(corpus)
            if i % 2:
                n = 0
                for p in (1, 2, 3):
                    for si in range(len(C16_STATES)):
                        for pkt in c16_pool(p, 4, si)[:8]:
                            with open(os.path.join(corpus, "s%d" % n), "wb") as f:
                                f.write(bytes([(p - 1) + 3 * si, len(pkt) & 0xFF]) + pkt[:255])
                            n += 1
            env = dict(os.environ, PYTHONHASHSEED="0", PYTHONPATH=VERIF + os.pathsep + os.environ.get("PYTHONPATH", ""))
            r = subprocess.run([sys.executable, "-m", "vf.fuzz16", os.path.join(d, "out"), "-runs=%d" % runs, "-seed=%d" % (seed * 100 + i + 1),
                                "-max_len=96", "-timeout=30", corpus], cwd=VERIF, env=env, capture_output=True, text=True, timeout=3000)
            st_path = os.path.join(d, "out", "stats.json")
            if not os.path.exists(st_path):
                if "No module named" in (r.stderr or "") and "atheris" in (r.stderr or ""):
                    res.labels["fuzz:atheris_unavailable"] += 1
                    return res
                res.errors.append("fuzz shard %d produced no statistics: %s" % (i, (r.stderr or "")[-400:]))
                return res
            stt = json.load(open(st_path))
            res.evals += stt["execs"]
            res.tiers["coverage_guided"] += stt["execs"]
            res.nontriv |= set(stt["nontrivial"])
            for k, v in stt.get("labels", {}).items():
                res.labels[k] += v
            out = os.path.join(d, "out")
            for nme in sorted(os.listdir(out)):
                if nme.startswith("fuzz-") and nme.endswith(".json"):
                    j = json.load(open(os.path.join(out, nme)))
                    case = self.case_from_json(j["case"])
                    res.viols.append((j["rule"], j["witness"], case))
        finally:
            shutil.rmtree(d, ignore_errors=True)
        return res

    def run_exhaustive(self, spec, res):
        if spec[0] == "fuzz":
            return self.run_fuzz(spec, res)
        if spec[0] == "bytes":
            _, p, si, lo, hi, maxlen = spec
            cfg = dict(profile=p, version=4, jitter=0.25, rude=True)
            n = 0
            for b0 in range(lo, hi):
                for ln in range(0, maxlen + 1):
                    for body in itertools.product(self.ALPHA, repeat=ln):
                        fr = bytes([b0, ln]) + bytes(body)
                        case = self.frame_case(cfg, si, fr)
                        res.add("exhaustive:short_frames", case, self.check_case(case))
                        n += 1
                        if ln >= 1 and ln <= 2:
                            # the length byte itself from the alphabet (too short, too long, continuation bit)
                            for lb in (self.ALPHA if maxlen >= 4 else (0x00, 0x01, 0x7F, 0x80)):
                                if lb != ln:
                                    fr2 = bytes([b0, lb]) + bytes(body)
                                    case = self.frame_case(cfg, si, fr2)
                                    res.add("exhaustive:short_frames_bad_length", case, self.check_case(case))
                                    n += 1
            res.exhaustive["short/profile%d/%s/%02x-%02x" % (p, C16_STATES[si][0], lo, hi - 1)] = n
            return res
        _, p, si, v = spec
        cfg = dict(profile=p, version=v, jitter=0.25, rude=True)
        n = 0
        for pkt in c16_pool(p, v, si):
            for fr in mutations(pkt):
                case = self.frame_case(cfg, si, fr)
                res.add("exhaustive:mutations", case, self.check_case(case))
                n += 1
        res.exhaustive["mutations/profile%d/%s/v%d" % (p, C16_STATES[si][0], v)] = n
        return res


def o_disconnect_then(ad, a, b, c):
    """disconnect() followed by activity inside the closing interval"""
    ops = [("disconnect", ad)]
    if a & 1:
        ops.append(("publish", ad, b % 3, 0, 0, 0, 0))
    if a & 2:
        ops.append(("fire", 1 + (b >> 2) % 3))
    if a & 4:
        ops.append(("advance", 8 + c % 6))
    if a & 8:
        ops.append(("subscribe", ad, 0, 1, 1))
    if a & 16:
        ops.append(("lose", ad, c % 3))
    return ops


T_CLOSE = G.Table([
    (8, G.o_publish), (3, G.o_subscribe), (2, G.o_unsubscribe), (4, G.o_ack_good), (3, G.o_pubrec), (6, o_disconnect_then),
    (3, G.o_fire), (3, G.o_advance), (2, G.o_lose), (3, G.o_reconnect), (2, G.o_inpub), (1, G.o_inpub_q2), (1, G.o_window),
    (1, G.o_resume_with_publish), (4, G.o_arm_disconnect), (2, G.o_arm), (3, G.o_segment), (3, G.o_quit_inside_segment),
])
ALL_TABLES = [T_MIX, T_PUB, T_PUBWIN, T_Q2, T_SUB, T_RETRY, T_KA, T_PERS, T_CLEAN, T_HS, T_INB, T_CLOSE]
C13.tables = ALL_TABLES
C13.cfg_extra = dict(reconnect_refused=True, flip_version=True)
C18.cfg_extra = dict(flip_version=True)
C18.tables = [T_CLOSE] * 8 + ALL_TABLES


class C02live(SessionProp):
    """the live-session part of C02 (run as extra shards of the C02 check)"""
    id = None
    monitor = staticmethod(M.mon_wire)
    tables = [T_RETRY, T_MIX, T_Q2, T_PERS, T_SUB, T_CLOSE, T_PUBWIN, T_PERS]
    cfg_extra = dict(flip_version=True)
    table = T_MIX
    max_words = 35
    quick_examples = 1200
    thorough_examples = 15000
    pre_kwargs = dict(keepalives=(0, 0, 7))


PROPS = {}
PROPS_BY_ID = {}


def _reg(cls):
    p = cls()
    PROPS[cls.__name__] = p
    if cls.id:
        PROPS_BY_ID[cls.id] = p
    return p


_reg(C02live)
_reg(C05)
_reg(C10)
_reg(C09)
_reg(C18)
_reg(C07)
_reg(C06)
_reg(C04)
_reg(C08)
_reg(C13)
_reg(C15)
_reg(C11)
_reg(C12)
_reg(C17)
_reg(C19)
_reg(C03)
_reg(C14)
_reg(C20)
_reg(C16)
