"""
Property monitors: functions (world, facts, verdict) that judge one observation log against one
property statement.  Each encodes only what its statement says; leniencies are named in DESIGN.md §4.
"""
from .facts import EPS

PUB_ACKS = ("PUBACK", "PUBREC", "PUBCOMP")


def _ctx_events(w, e):
    """events recorded while the delivery / call / timer that produced event e was running"""
    out = []
    i = e.i + 1
    log = w.log
    while i < len(log) and log[i].ctx is e.ctx:
        out.append(log[i])
        i += 1
    return out


def rx_event_of(w, ei):
    """the delivery (rx event) during which event ei was recorded, or None"""
    e = w.log[ei]
    if not e.ctx or e.ctx[0] != "rx":
        return None
    i = ei
    while i >= 0:
        x = w.log[i]
        if x.k == "rx" and x.ctx is e.ctx:
            return x
        if x.step != e.step:
            return None
        i -= 1
    return None


def timers_before_after(w, F, step):
    a = F.step_end.get(step - 1)
    b = F.step_end.get(step)
    ta = [round(t, 6) for t, _ in a.d["pending"]] if a else []
    tb = [round(t, 6) for t, _ in b.d["pending"]] if b else []
    return ta, tb


def unsolicited(e):
    d = e.d["desc"]
    return d[0] in ("PUBACK", "PUBREC", "PUBCOMP", "SUBACK", "UNSUBACK") and d[-1] in (3, 4, 5)


# ====================================================================== C05

def mon_c05(w, F, vd):
    for e in F.already_called():
        vd.bad("C05.fired_twice", "AlreadyCalledError in %s" % (e.d["where"],))
    inflight_mixed = False
    for ri in F.pubs():
        r = ri.req
        if r.ret != "deferred" or not ri.accepted:
            continue
        fires = r.fires
        if len(fires) > 1:
            vd.bad("C05.fired_twice", "request #%d fired %d times" % (r.rid, len(fires)))
        if ri.qos == 0:
            if not (len(fires) == 1 and fires[0][3] == "ok" and fires[0][4] is None and F._fired_in_own_call(r)):
                vd.bad("C05.qos0_not_done", "QoS 0 publish #%d: fires=%r" % (r.rid, [(f[3], f[4]) for f in fires]))
            continue
        if not isinstance(r.msgid, int) or isinstance(r.msgid, bool):
            vd.bad("C05.msgid_missing", "publish #%d qos %d has msgId %r" % (r.rid, ri.qos, r.msgid))
            continue
        for tx in ri.tx:
            if tx.f.get("id") != r.msgid:
                vd.bad("C05.id_mismatch", "publish #%d: Deferred.msgId %r, id on the wire %r" % (
                    r.rid, r.msgid, tx.f.get("id")))
                break
        if fires and fires[0][3] == "ok":
            ei = fires[0][0]
            rx = rx_event_of(w, ei)
            want = "PUBACK" if ri.qos == 1 else "PUBCOMP"
            d = rx.d["desc"] if rx is not None else None
            if d is None or d[0] != want or d[1] != r.msgid or w.conns[rx.c].a != ri.a:
                vd.bad("C05.success_without_ack", "publish #%d qos %d succeeded in context %r" % (
                    r.rid, ri.qos, w.log[ei].ctx[:3] if w.log[ei].ctx else None))
            else:
                if not ri.tx or ri.tx[0].ei > ei:
                    vd.bad("C05.success_before_tx", "publish #%d succeeded before its first transmission" % r.rid)
                if ri.qos == 2 and not ri.got("PUBREC", before_ei=rx.i):
                    vd.bad("C05.pubcomp_without_pubrec", "publish #%d qos 2 succeeded on PUBCOMP with no PUBREC" % r.rid)
            if fires[0][4] != r.msgid:
                vd.bad("C05.callback_value", "publish #%d: callback value %r, msgId %r" % (r.rid, fires[0][4], r.msgid))
    # unsolicited acknowledgements change nothing
    n_unsol = 0
    for e in F.rx:
        d = e.d["desc"]
        if d[0] in PUB_ACKS and unsolicited(e):
            n_unsol += 1
            evs = _ctx_events(w, e)
            for x in evs:
                if x.k == "fire":
                    vd.bad("C05.unsolicited_ack_fired", "%s id %s (selector %s) fired request #%s" % (
                        d[0], d[1], d[-1], x.d.get("rid")))
                elif x.k == "write":
                    ok = d[0] == "PUBREC" and all(fr[0] == "PUBREL" and fr[1].get("id") == d[1] for fr in x.d["frames"])
                    if not ok:
                        vd.bad("C05.unsolicited_ack_wrote", "%s id %s (selector %s) caused a write of %s" % (
                            d[0], d[1], d[-1], [fr[0] for fr in x.d["frames"]]))
                elif x.k in ("abort", "close", "escape"):
                    if x.k == "escape" and not x.d["where"].startswith("log:"):
                        vd.bad("C05.unsolicited_ack_raised", "%s id %s: %s" % (d[0], d[1], x.d["exc"]))
            if not any(x.k == "write" for x in evs) and w.ops_done[e.step][0] == "rx":
                ta, tb = timers_before_after(w, F, e.step)
                if ta != tb:
                    vd.bad("C05.unsolicited_ack_timers", "%s id %s (selector %s) changed the pending timers %s -> %s" % (
                        d[0], d[1], d[-1], ta[:6], tb[:6]))
    # classification
    expiry_between = any(len(ri.tx) >= 2 and ri.acks for ri in F.pubs())
    out_of_order = False
    pend = {}
    for e in w.log:
        if e.k == "write" and e.d["where"] == "wire":
            for fr in e.d["frames"]:
                if fr[0] == "PUBLISH" and fr[1]["qos"]:
                    pend.setdefault(e.c, [])
                    if fr[1]["id"] not in [p[0] for p in pend[e.c]]:
                        pend[e.c].append((fr[1]["id"], fr[1]["qos"]))
                    if len(set(q for _, q in pend[e.c])) > 1:
                        inflight_mixed = True
        elif e.k == "rx" and e.d["desc"][0] in ("PUBACK", "PUBREC") and not unsolicited(e):
            lst = pend.get(e.c, [])
            ids = [p[0] for p in lst]
            if e.d["desc"][1] in ids:
                if ids.index(e.d["desc"][1]) != 0:
                    out_of_order = True
                lst.pop(ids.index(e.d["desc"][1]))
    vd.nontrivial = bool(n_unsol or out_of_order or inflight_mixed or expiry_between)
    if n_unsol:
        vd.label("unsolicited_ack")
    if out_of_order:
        vd.label("out_of_order_ack")
    if inflight_mixed:
        vd.label("mixed_qos_in_flight")
    if expiry_between:
        vd.label("expiry_before_ack")


# ====================================================================== shared walk for publish flows

class PubWalk(object):
    """Replays the log in order and keeps, per address, the monitor's own model of the publish
    side: accepted requests in call order, which have been transmitted, which await PUBACK/PUBREC,
    which await PUBCOMP, which are dead (failed / purged).  Calls hooks of the monitor at the
    interesting moments."""

    def __init__(self, w, F):
        self.w, self.F = w, F
        self.accepted = {0: [], 1: []}       # addr -> [rid] in publish() order
        self.sent = set()                    # rids seen on the wire
        self.await_ack = {0: [], 1: []}      # rids sent, no PUBACK/PUBREC yet (qos>0)
        self.await_comp = {0: [], 1: []}     # rids with PUBREC received, no PUBCOMP yet
        self.dead = set()                    # rids whose Deferred failed, or (QoS 0) dropped by a purge
        self.done = set()                    # rids completed (acked) or QoS 0 transmitted
        self.window = {}                     # conn idx -> window size in force
        self.timeout = {}                    # conn idx -> initial timeout in force

    def run(self, on_first_tx=None, on_step_end=None, on_tx=None, on_event=None):
        w, F = self.w, self.F
        for e in w.log:
            if on_event:
                on_event(self, e)
            k = e.k
            if k == "build":
                self.window[e.c] = 1
                self.timeout[e.c] = 4
            elif k == "api":
                r = w.reqs[e.d["rid"]]
                if r.kind == "publish":
                    ri = F.info[r.rid]
                    if ri.accepted:
                        self.accepted[ri.a].append(r.rid)
                elif r.kind == "setWindowSize" and r.ret == "none":
                    self.window[e.c] = r.args[0]
                elif r.kind == "setTimeout" and r.ret == "none":
                    self.timeout[e.c] = r.args[0]
            elif k == "write":
                for fr in e.d["frames"]:
                    if fr[0] != "PUBLISH":
                        continue
                    from .facts import marker_of
                    rid = marker_of("PUBLISH", fr[1])
                    ri = F.info.get(rid)
                    if ri is None or ri.kind != "publish":
                        continue
                    first = rid not in self.sent
                    if first:
                        self.sent.add(rid)
                        if ri.qos:
                            self.await_ack[ri.a].append(rid)
                        else:
                            self.done.add(rid)
                        if on_first_tx:
                            on_first_tx(self, e, ri, fr)
                    if on_tx:
                        on_tx(self, e, ri, fr, first)
            elif k == "rx":
                d = e.d["desc"]
                if d[0] in ("PUBACK", "PUBREC", "PUBCOMP"):
                    a = w.conns[e.c].a
                    for ri in F.pubs():
                        if ri.a == a and any(x[0] == e.i for x in ri.acks):
                            if d[0] in ("PUBACK", "PUBREC") and ri.rid in self.await_ack[a]:
                                self.await_ack[a].remove(ri.rid)
                                if d[0] == "PUBREC":
                                    self.await_comp[a].append(ri.rid)
                                else:
                                    self.done.add(ri.rid)
                            elif d[0] == "PUBCOMP" and ri.rid in self.await_comp[a]:
                                self.await_comp[a].remove(ri.rid)
                                self.done.add(ri.rid)
            elif k == "fire" and e.d["kind"] == "publish":
                rid = e.d["rid"]
                ri = F.info[rid]
                if e.d["out"] == "err":
                    self.dead.add(rid)
                    for lst in (self.await_ack[ri.a], self.await_comp[ri.a]):
                        if rid in lst:
                            lst.remove(rid)
                elif ri.qos:
                    # success: whatever the model thought, the exchange is over
                    for lst in (self.await_ack[ri.a], self.await_comp[ri.a]):
                        if rid in lst:
                            lst.remove(rid)
                    self.done.add(rid)
            elif k == "lost":
                conn = w.conns[e.c]
                if conn.clean is not False:
                    self._drop_unsent_q0(conn.a)
            elif k == "phase" and e.d["new"] == "connected":
                conn = w.conns[e.c]
                if conn.clean:
                    self._drop_unsent_q0(conn.a, before_conn=conn)
            elif k == "timers" and on_step_end:
                on_step_end(self, e)

    def _drop_unsent_q0(self, a, before_conn=None):
        for rid in self.accepted[a]:
            ri = self.F.info[rid]
            if ri.qos == 0 and rid not in self.sent:
                if before_conn is None or ri.conn is not before_conn:
                    self.dead.add(rid)

    def unsent_live(self, a):
        return [rid for rid in self.accepted[a] if rid not in self.sent and rid not in self.dead]


# ====================================================================== C10

def mon_c10(w, F, vd):
    lab = set()
    state = {"queued_mixed": False, "window_changed_inflight": False}

    def first_tx(pw, e, ri, fr):
        a = ri.a
        # (c) FIFO across QoS levels: no live earlier message still unsent
        for rid in pw.accepted[a]:
            if rid >= ri.rid:
                break
            if rid not in pw.sent and rid not in pw.dead:
                vd.bad("C10.overtaken", "publish #%d (qos %d) first sent while earlier publish #%d (qos %d) is still held back" % (
                    ri.rid, ri.qos, rid, F.info[rid].qos))
                break
        # (a) the bound
        if ri.qos:
            wnd = pw.window.get(e.c, 1)
            n = len(pw.await_ack[a])
            if n > wnd:
                vd.bad("C10.window_exceeded", "%d PUBLISH packets await PUBACK/PUBREC after first sending #%d with window %d" % (
                    n, ri.rid, wnd))

    def on_tx(pw, e, ri, fr, first):
        if not first and not fr[1]["dup"] and ri.qos == 0:
            vd.bad("C10.first_tx_twice", "QoS 0 publish #%d written twice" % ri.rid)
        elif not first and not fr[1]["dup"]:
            vd.bad("C10.first_tx_twice", "publish #%d written again with DUP=0" % ri.rid)

    # (d) evaluated at every step end
    conn_phase = {}

    def on_event(pw, e):
        if e.k == "phase":
            conn_phase[e.c] = e.d["new"]
        elif e.k == "lost":
            conn_phase[e.c] = "lost"
        elif e.k in ("close", "abort"):
            conn_phase[e.c] = "closing"
        elif e.k == "api" and e.d["op"] == "setWindowSize":
            if pw.await_ack[w.conns[e.c].a]:
                state["window_changed_inflight"] = True
        elif e.k == "timers":
            for c, ph in conn_phase.items():
                if ph != "connected":
                    continue
                a = w.conns[c].a
                if pw.await_ack[a] or pw.await_comp[a]:
                    uns = pw.unsent_live(a)
                    if uns and len(set(F.info[r].qos for r in uns)) > 1:
                        state["queued_mixed"] = True
                    continue
                uns = pw.unsent_live(a)
                if uns:
                    vd.bad("C10.stranded", "connection up, no QoS>0 exchange outstanding, but publish %s still unsent" % (
                        ["#%d(qos %d)" % (r, F.info[r].qos) for r in uns[:4]],))

    pw = PubWalk(w, F)
    pw.run(on_first_tx=first_tx, on_tx=on_tx, on_event=on_event)
    # (b) never rejected
    for ri in F.pubs():
        r = ri.req
        if r.ret == "deferred" and not ri.accepted and r.state_before in ("connected", "connecting") \
                and r.fires and r.fires[0][3] == "err" and type(r.fires[0][4]).__name__ == "MQTTWindowError":
            vd.bad("C10.rejected", "publish #%d refused with MQTTWindowError" % r.rid)
    queued = any(ri.accepted and ri.tx and ri.tx[0].step > ri.req.step for ri in F.pubs()) or \
        any(ri.accepted and not ri.tx for ri in F.pubs())
    qoss = set(ri.qos for ri in F.pubs() if ri.accepted)
    vd.nontrivial = bool(queued and (len(qoss) > 1 or state["window_changed_inflight"]))
    if queued:
        vd.label("queued")
    if state["window_changed_inflight"]:
        vd.label("window_changed_in_flight")
    if state["queued_mixed"]:
        vd.label("mixed_qos_queued")
    if any(len(set(c.idx for c in [w.conns[t.c] for t in ri.tx])) > 1 for ri in F.pubs()):
        vd.label("resumed_in_flight")


# ====================================================================== C09

def mon_c09(w, F, vd):
    nontriv = False
    for ri in F.pubs():
        if ri.qos != 2 or not ri.accepted:
            continue
        recs = [k for k in ri.acks if k[3] == "PUBREC"]
        comps = [k for k in ri.acks if k[3] == "PUBCOMP"]
        if ri.rel:
            first_rel = ri.rel[0]
            if not recs or recs[0][0] > first_rel.ei:
                vd.bad("C09.pubrel_before_pubrec", "publish #%d: PUBREL id %d written with no PUBREC received" % (
                    ri.rid, first_rel.f["id"]))
            for tx in ri.tx:
                if tx.ei > first_rel.ei and (ri.fire is None or tx.ei < ri.fire[0]):
                    vd.bad("C09.publish_after_pubrel", "publish #%d: PUBLISH id %d written again after its PUBREL (context %r)" % (
                        ri.rid, tx.f["id"], tx.ctx[:2] if tx.ctx else None))
                    break
        if ri.fire and ri.fire[3] == "ok":
            if not comps or comps[0][0] > ri.fire[0]:
                vd.bad("C09.ended_without_pubcomp", "publish #%d qos 2 completed without PUBCOMP" % ri.rid)
        if recs and not ri.rel:
            vd.bad("C09.no_pubrel_after_pubrec", "publish #%d: PUBREC delivered but no PUBREL written" % ri.rid)
        # classification: an expiry or a loss between PUBREC and PUBCOMP, or a duplicated PUBREC
        if recs:
            end = comps[0][0] if comps else (ri.fire[0] if ri.fire else len(w.log))
            if len(ri.rel) > 1 or any(e.k == "lost" and recs[0][0] < e.i < end and w.conns[e.c].a == ri.a for e in w.log):
                nontriv = True
    # a PUBREL nobody can account for
    for tx in F.unattributed:
        if tx.kind == "PUBREL":
            a = w.conns[tx.c].a
            prior = [e for e in F.rx if e.i < tx.ei and e.d["desc"][0] == "PUBREC" and e.d["desc"][1] == tx.f["id"]
                     and w.conns[e.c].a == a]
            if not prior:
                vd.bad("C09.pubrel_before_pubrec", "PUBREL id %d written, no PUBREC for it was ever received" % tx.f["id"])
    for e in F.rx:
        if e.d["desc"][0] == "PUBREC" and e.d["desc"][-1] == 3:
            nontriv = True
    vd.nontrivial = nontriv


# ====================================================================== C17

def mon_c17(w, F, vd):
    wrapped = False
    unfinished = {}          # id -> rid (any address: one factory)
    last_id = None
    for e in w.log:
        if e.k == "write" and e.d["where"] == "wire":
            for fr in e.d["frames"]:
                if fr[0] in ("PUBLISH", "PUBREL", "SUBSCRIBE", "UNSUBSCRIBE"):
                    i = fr[1].get("id")
                    if fr[0] == "PUBLISH" and not fr[1]["qos"]:
                        continue
                    if not (isinstance(i, int) and 1 <= i <= 65535):
                        vd.bad("C17.id_range", "%s carries packet id %r" % (fr[0], i))
                elif fr[0] == "MALFORMED" and "packet id 0" in str(fr[1]):
                    vd.bad("C17.id_range", "packet with id 0 written")
        elif e.k == "api":
            r = w.reqs[e.d["rid"]]
            ri = F.info.get(r.rid)
            if ri is None or not ri.accepted or (ri.kind == "publish" and ri.qos == 0):
                continue
            i = r.msgid
            if not (isinstance(i, int) and not isinstance(i, bool) and 1 <= i <= 65535):
                vd.bad("C17.id_range", "%s request #%d got msgId %r" % (r.kind, r.rid, i))
                continue
            if last_id is not None and i < last_id:
                wrapped = True
            last_id = i
            if i in unfinished:
                o = unfinished[i]
                vd.bad("C17.id_reused", "%s #%d was given id %d while %s #%d carrying it is unfinished" % (
                    r.kind, r.rid, i, w.reqs[o].kind, o))
            unfinished[i] = r.rid
        elif e.k == "fire":
            rid = e.d["rid"]
            for i, o in list(unfinished.items()):
                if o == rid:
                    del unfinished[i]
    vd.nontrivial = wrapped and True
    if wrapped:
        vd.label("wrapped")
    if wrapped and unfinished:
        vd.label("wrapped_with_unfinished")


# ====================================================================== C18

def mon_c18(w, F, vd):
    nontriv = False
    for conn in w.conns:
        frames = [fr for fr in conn.frames if fr[4] == "wire"]
        kinds = [fr[1] for fr in frames]
        for (ei, kind, f, raw, where) in frames:
            if kind == "MALFORMED":
                vd.bad("C18.malformed", "connection %d: %s (first byte %02x)" % (conn.idx, f, raw[0] if raw else 0))
        if conn.residue:
            vd.bad("C18.partial_packet", "connection %d: %d bytes that are not a complete packet end the stream" % (
                conn.idx, len(conn.residue)))
        if kinds and kinds[0] != "CONNECT" and kinds[0] != "MALFORMED":
            vd.bad("C18.first_not_connect", "connection %d starts with %s" % (conn.idx, kinds[0]))
        if kinds.count("CONNECT") > 1:
            vd.bad("C18.second_connect", "connection %d carries %d CONNECT packets" % (conn.idx, kinds.count("CONNECT")))
        disc_ei = None
        for (ei, kind, f, raw, where) in frames:
            ctx = w.log[ei].ctx
            if kind == "CONNECT" and not (ctx and ctx[0] == "api" and ctx[1] == "connect"):
                vd.bad("C18.connect_outside_connect", "CONNECT written in context %r" % (ctx[:2] if ctx else None,))
            if disc_ei is not None and ei >= disc_ei:
                if not (ei == disc_ei and kind == "DISCONNECT"):
                    vd.bad("C18.after_disconnect", "%s written after DISCONNECT (trigger %s)" % (
                        kind, _trigger(ctx)))
            if kind == "DISCONNECT" and disc_ei is None:
                disc_ei = ei
                if not (ctx and ctx[0] == "api" and ctx[1] == "disconnect"):
                    vd.bad("C18.disconnect_outside_disconnect", "DISCONNECT written in context %r" % (ctx[:2] if ctx else None,))
                else:
                    closes = [x for x in w.log[ei:] if x.ctx is ctx and x.k in ("close", "abort")]
                    if not closes:
                        vd.bad("C18.disconnect_without_close", "disconnect() wrote DISCONNECT but did not ask the transport to close")
        closing_steps = 0
    for e in w.log:
        if e.k == "write" and e.d["where"] == "after_lost":
            vd.bad("C18.write_after_lost", "write of %d bytes after the connection was reported lost (trigger %s)" % (
                len(e.d["data"]), _trigger(e.ctx)))
    # classification: a step inside a closing interval, or >= 5 packet types on one stream
    closing = {}
    for e in w.log:
        if e.k in ("close", "abort"):
            closing[e.c] = e.step
        elif e.k == "lost":
            if e.c in closing and e.step > closing[e.c] + 0:
                if any(x.step > closing[e.c] and x.step < e.step and x.k in ("api", "timer") for x in w.log):
                    nontriv = True
            closing.pop(e.c, None)
    for conn in w.conns:
        if len(set(fr[1] for fr in conn.frames)) >= 5:
            nontriv = True
    vd.nontrivial = nontriv


def _trigger(ctx):
    if not ctx:
        return "?"
    if ctx[0] == "api":
        return "api:%s" % ctx[1]
    if ctx[0] == "timer":
        n = ctx[1]
        if "ping" in n.lower() or "LoopingCall" in n:
            return "timer:ping"
        return "timer:retry" if "rror" in n else "timer:%s" % n[-30:]
    if ctx[0] == "rx":
        return "rx:%s" % ctx[1]
    return ctx[0]
