"""
Property monitors: functions (world, facts, verdict) that judge one observation log against one
property statement.  Each encodes only what its statement says; leniencies are named in DESIGN.md §4.
"""
from .facts import EPS

PUB_ACKS = ("PUBACK", "PUBREC", "PUBCOMP")


def _ctx_events(w, e):
    """events recorded while the delivery / call / timer that produced event e was running"""
    from .sim import within
    out = []
    i = e.i + 1
    log = w.log
    while i < len(log) and within(log[i].ctx, e.ctx):
        out.append(log[i])
        i += 1
    return out


def rx_event_of(w, ei):
    """the delivery (rx event) during which event ei was recorded, or None"""
    e = w.log[ei]
    if not e.ctx or e.ctx[0] != "rx":
        return None
    i = ei
    while i >= 0:
        x = w.log[i]
        if x.k == "rx" and x.ctx is e.ctx:
            return x
        if x.step != e.step:
            return None
        i -= 1
    return None


def rx_part(rx, kind, pid):
    """the part of a delivery (a single packet, or one packet of a coalesced segment) of that kind and id"""
    if rx is None:
        return None
    for d in rx.d.get("parts") or [rx.d["desc"]]:
        if d and d[0] == kind and len(d) > 1 and d[1] == pid:
            return d
    return None


def timers_before_after(w, F, step):
    a = F.step_end.get(step - 1)
    b = F.step_end.get(step)
    ta = [round(t, 6) for t, _ in a.d["pending"]] if a else []
    tb = [round(t, 6) for t, _ in b.d["pending"]] if b else []
    return ta, tb


def unsolicited(e):
    d = e.d["desc"]
    return d[0] in ("PUBACK", "PUBREC", "PUBCOMP", "SUBACK", "UNSUBACK") and d[-1] in (3, 4, 5, 6, 7)


# ====================================================================== C05

def mon_c05(w, F, vd):
    for e in F.already_called():
        vd.bad("C05.fired_twice", "AlreadyCalledError in %s" % (e.d["where"],))
    inflight_mixed = False
    for ri in F.pubs():
        r = ri.req
        if r.ret != "deferred" or not ri.accepted:
            continue
        fires = r.fires
        if len(fires) > 1:
            vd.bad("C05.fired_twice", "request #%d fired %d times" % (r.rid, len(fires)))
        if ri.qos == 0:
            if not (len(fires) == 1 and fires[0][3] == "ok" and fires[0][4] is None and F._fired_in_own_call(r)):
                vd.bad("C05.qos0_not_done", "QoS 0 publish #%d: fires=%r" % (r.rid, [(f[3], f[4]) for f in fires]))
            continue
        if not isinstance(r.msgid, int) or isinstance(r.msgid, bool):
            vd.bad("C05.msgid_missing", "publish #%d qos %d has msgId %r" % (r.rid, ri.qos, r.msgid))
            continue
        for tx in ri.tx:
            if tx.f.get("id") != r.msgid:
                vd.bad("C05.id_mismatch", "publish #%d: Deferred.msgId %r, id on the wire %r" % (
                    r.rid, r.msgid, tx.f.get("id")))
                break
        if fires and fires[0][3] == "ok":
            ei = fires[0][0]
            rx = rx_event_of(w, ei)
            want = "PUBACK" if ri.qos == 1 else "PUBCOMP"
            d = rx_part(rx, want, r.msgid)
            if d is None or w.conns[rx.c].a != ri.a:
                vd.bad("C05.success_without_ack", "publish #%d qos %d succeeded in context %r" % (
                    r.rid, ri.qos, w.log[ei].ctx[:3] if w.log[ei].ctx else None))
            else:
                if not ri.tx or ri.tx[0].ei > ei:
                    vd.bad("C05.success_before_tx", "publish #%d succeeded before its first transmission" % r.rid)
                if ri.qos == 2 and not any(k_[3] == "PUBREC" and k_[0] <= rx.i for k_ in ri.acks):
                    vd.bad("C05.pubcomp_without_pubrec", "publish #%d qos 2 succeeded on PUBCOMP with no PUBREC" % r.rid)
            if fires[0][4] != r.msgid:
                vd.bad("C05.callback_value", "publish #%d: callback value %r, msgId %r" % (r.rid, fires[0][4], r.msgid))
    # unsolicited acknowledgements change nothing
    n_unsol = 0
    for e in F.rx:
        d = e.d["desc"]
        if d[0] in PUB_ACKS and unsolicited(e):
            n_unsol += 1
            evs = _ctx_events(w, e)
            for x in evs:
                if x.k == "fire":
                    vd.bad("C05.unsolicited_ack_fired", "%s id %s (selector %s) fired request #%s" % (
                        d[0], d[1], d[-1], x.d.get("rid")))
                elif x.k == "write":
                    ok = d[0] == "PUBREC" and all(fr[0] == "PUBREL" and fr[1].get("id") == d[1] for fr in x.d["frames"])
                    if not ok:
                        vd.bad("C05.unsolicited_ack_wrote", "%s id %s (selector %s) caused a write of %s" % (
                            d[0], d[1], d[-1], [fr[0] for fr in x.d["frames"]]))
                elif x.k in ("abort", "close", "escape"):
                    if x.k == "escape" and not x.d["where"].startswith("log:"):
                        vd.bad("C05.unsolicited_ack_raised", "%s id %s: %s" % (d[0], d[1], x.d["exc"]))
            if not any(x.k == "write" for x in evs) and w.ops_done[e.step][0] == "rx":
                ta, tb = timers_before_after(w, F, e.step)
                if ta != tb:
                    vd.bad("C05.unsolicited_ack_timers", "%s id %s (selector %s) changed the pending timers %s -> %s" % (
                        d[0], d[1], d[-1], ta[:6], tb[:6]))
    # classification
    expiry_between = any(len(ri.tx) >= 2 and ri.acks for ri in F.pubs())
    out_of_order = False
    pend = {}
    for e in w.log:
        if e.k == "write" and e.d["where"] == "wire":
            for fr in e.d["frames"]:
                if fr[0] == "PUBLISH" and fr[1]["qos"]:
                    pend.setdefault(e.c, [])
                    if fr[1]["id"] not in [p[0] for p in pend[e.c]]:
                        pend[e.c].append((fr[1]["id"], fr[1]["qos"]))
                    if len(set(q for _, q in pend[e.c])) > 1:
                        inflight_mixed = True
        elif e.k == "rx" and e.d["desc"][0] in ("PUBACK", "PUBREC") and not unsolicited(e):
            lst = pend.get(e.c, [])
            ids = [p[0] for p in lst]
            if e.d["desc"][1] in ids:
                if ids.index(e.d["desc"][1]) != 0:
                    out_of_order = True
                lst.pop(ids.index(e.d["desc"][1]))
    vd.nontrivial = bool(n_unsol or out_of_order or inflight_mixed or expiry_between)
    if n_unsol:
        vd.label("unsolicited_ack")
    if out_of_order:
        vd.label("out_of_order_ack")
    if inflight_mixed:
        vd.label("mixed_qos_in_flight")
    if expiry_between:
        vd.label("expiry_before_ack")


# ====================================================================== shared walk for publish flows

class PubWalk(object):
    """Replays the log in order and keeps, per address, the monitor's own model of the publish
    side: accepted requests in call order, which have been transmitted, which await PUBACK/PUBREC,
    which await PUBCOMP, which are dead (failed / purged).  Calls hooks of the monitor at the
    interesting moments."""

    def __init__(self, w, F):
        self.w, self.F = w, F
        self.accepted = {0: [], 1: []}       # addr -> [rid] in publish() order
        self.sent = set()                    # rids seen on the wire
        self.await_ack = {0: [], 1: []}      # rids sent, no PUBACK/PUBREC yet (qos>0)
        self.await_comp = {0: [], 1: []}     # rids with PUBREC received, no PUBCOMP yet
        self.dead = set()                    # rids whose Deferred failed, or (QoS 0) dropped by a purge
        self.doomed = set()                  # QoS>0 rids held back when a clean session was established
        self.done = set()                    # rids completed (acked) or QoS 0 transmitted
        self.window = {}                     # conn idx -> window size in force
        self.timeout = {}                    # conn idx -> initial timeout in force

    def run(self, on_first_tx=None, on_step_end=None, on_tx=None, on_event=None):
        w, F = self.w, self.F
        for e in w.log:
            if on_event:
                on_event(self, e)
            k = e.k
            if k == "build":
                self.window[e.c] = 1
                self.timeout[e.c] = 4
            elif k == "api":
                r = w.reqs[e.d["rid"]]
                if r.kind == "publish":
                    ri = F.info[r.rid]
                    if ri.accepted:
                        self.accepted[ri.a].append(r.rid)
                elif r.kind == "setWindowSize" and r.ret == "none":
                    self.window[e.c] = r.args[0]
                elif r.kind == "setTimeout" and r.ret == "none":
                    self.timeout[e.c] = r.args[0]
            elif k == "write":
                for fr in e.d["frames"]:
                    if fr[0] != "PUBLISH":
                        continue
                    from .facts import marker_of
                    rid = marker_of("PUBLISH", fr[1])
                    ri = F.info.get(rid)
                    if ri is None or ri.kind != "publish":
                        continue
                    first = rid not in self.sent
                    if first:
                        self.sent.add(rid)
                        if ri.qos:
                            self.await_ack[ri.a].append(rid)
                        else:
                            self.done.add(rid)
                        if on_first_tx:
                            on_first_tx(self, e, ri, fr)
                    if on_tx:
                        on_tx(self, e, ri, fr, first)
            elif k == "rx":
              for d in (e.d.get("parts") or [e.d["desc"]]):
                if d[0] == "CONNACK" and d[1] == 0 and w.conns[e.c].clean:
                    # a clean session is being established: carried-over QoS 0 messages still held back are dropped
                    self._drop_unsent_q0(w.conns[e.c].a, before_conn=w.conns[e.c])
                if d[0] in ("PUBACK", "PUBREC", "PUBCOMP"):
                    a = w.conns[e.c].a
                    for ri in F.pubs():
                        if ri.a == a and any(x[0] == e.i and x[3] == d[0] for x in ri.acks):
                            if d[0] in ("PUBACK", "PUBREC") and ri.rid in self.await_ack[a]:
                                self.await_ack[a].remove(ri.rid)
                                if d[0] == "PUBREC":
                                    self.await_comp[a].append(ri.rid)
                                else:
                                    self.done.add(ri.rid)
                            elif d[0] == "PUBCOMP" and ri.rid in self.await_comp[a]:
                                self.await_comp[a].remove(ri.rid)
                                self.done.add(ri.rid)
            elif k == "fire" and e.d["kind"] == "publish":
                rid = e.d["rid"]
                ri = F.info[rid]
                if e.d["out"] == "err":
                    self.dead.add(rid)
                    for lst in (self.await_ack[ri.a], self.await_comp[ri.a]):
                        if rid in lst:
                            lst.remove(rid)
                elif ri.qos:
                    # success: whatever the model thought, the exchange is over
                    for lst in (self.await_ack[ri.a], self.await_comp[ri.a]):
                        if rid in lst:
                            lst.remove(rid)
                    self.done.add(rid)
            elif k == "lost":
                conn = w.conns[e.c]
                if conn.clean is not False:
                    self._drop_unsent_q0(conn.a)
            elif k == "phase" and e.d["new"] == "connected":
                conn = w.conns[e.c]
                if conn.clean:
                    self._drop_unsent_q0(conn.a, before_conn=conn)
            elif k == "timers" and on_step_end:
                on_step_end(self, e)

    def _drop_unsent_q0(self, a, before_conn=None):
        for rid in self.accepted[a]:
            ri = self.F.info[rid]
            if before_conn is not None and ri.qos and ri.conn is not before_conn:
                # carried over into a clean session: about to be failed by the purge.  Its errback may not
                # have run yet when a callback of an earlier one publishes again; it no longer holds back
                # anything nor occupies the window (C12 checks that it is really failed and never re-sent)
                if rid not in self.sent:
                    self.doomed.add(rid)
                for lst in (self.await_ack[a], self.await_comp[a]):
                    if rid in lst:
                        lst.remove(rid)
            if ri.qos == 0 and rid not in self.sent:
                if before_conn is None or ri.conn is not before_conn:
                    self.dead.add(rid)

    def unsent_live(self, a):
        return [rid for rid in self.accepted[a] if rid not in self.sent and rid not in self.dead]


# ====================================================================== C10

def mon_c10(w, F, vd):
    lab = set()
    state = {"queued_mixed": False, "window_changed_inflight": False}

    def first_tx(pw, e, ri, fr):
        a = ri.a
        # (c) FIFO across QoS levels: no live earlier message still unsent
        for rid in pw.accepted[a]:
            if rid >= ri.rid:
                break
            if rid not in pw.sent and rid not in pw.dead and rid not in pw.doomed:
                vd.bad("C10.overtaken", "publish #%d (qos %d) first sent while earlier publish #%d (qos %d) is still held back" % (
                    ri.rid, ri.qos, rid, F.info[rid].qos))
                break
        later = [rid for rid in pw.sent if rid > ri.rid and F.info[rid].a == a]
        if later:
            vd.bad("C10.order", "publish #%d first sent after the later publish #%d" % (ri.rid, min(later)))
        # (a) the bound
        if ri.qos:
            wnd = pw.window.get(e.c, 1)
            n = len(pw.await_ack[a])
            if n > wnd:
                vd.bad("C10.window_exceeded", "%d PUBLISH packets await PUBACK/PUBREC after first sending #%d with window %d" % (
                    n, ri.rid, wnd))

    def on_tx(pw, e, ri, fr, first):
        if not first and not fr[1]["dup"] and ri.qos == 0:
            vd.bad("C10.first_tx_twice", "QoS 0 publish #%d written twice" % ri.rid)
        elif not first and not fr[1]["dup"]:
            vd.bad("C10.first_tx_twice", "publish #%d written again with DUP=0" % ri.rid)

    # (d) evaluated at every step end
    conn_phase = {}

    def on_event(pw, e):
        if e.k == "phase":
            conn_phase[e.c] = e.d["new"]
        elif e.k == "lost":
            conn_phase[e.c] = "lost"
        elif e.k in ("close", "abort"):
            conn_phase[e.c] = "closing"
        elif e.k == "api" and e.d["op"] == "setWindowSize":
            if pw.await_ack[w.conns[e.c].a]:
                state["window_changed_inflight"] = True
        elif e.k == "timers":
            for c, ph in conn_phase.items():
                if ph != "connected":
                    continue
                a = w.conns[c].a
                if pw.await_ack[a] or pw.await_comp[a]:
                    uns = pw.unsent_live(a)
                    if uns and len(set(F.info[r].qos for r in uns)) > 1:
                        state["queued_mixed"] = True
                    continue
                uns = pw.unsent_live(a)
                if uns:
                    vd.bad("C10.stranded", "connection up, no QoS>0 exchange outstanding, but publish %s still unsent" % (
                        ["#%d(qos %d)" % (r, F.info[r].qos) for r in uns[:4]],))

    pw = PubWalk(w, F)
    pw.run(on_first_tx=first_tx, on_tx=on_tx, on_event=on_event)
    # (b) never rejected
    for ri in F.pubs():
        r = ri.req
        if r.ret == "deferred" and not ri.accepted and r.state_before in ("connected", "connecting") \
                and r.fires and r.fires[0][3] == "err" and type(r.fires[0][4]).__name__ == "MQTTWindowError":
            vd.bad("C10.rejected", "publish #%d refused with MQTTWindowError" % r.rid)
    queued = any(ri.accepted and ri.tx and ri.tx[0].step > ri.req.step for ri in F.pubs()) or \
        any(ri.accepted and not ri.tx for ri in F.pubs())
    qoss = set(ri.qos for ri in F.pubs() if ri.accepted)
    vd.nontrivial = bool(queued and (len(qoss) > 1 or state["window_changed_inflight"]))
    if queued:
        vd.label("queued")
    if state["window_changed_inflight"]:
        vd.label("window_changed_in_flight")
    if state["queued_mixed"]:
        vd.label("mixed_qos_queued")
    if any(len(set(c.idx for c in [w.conns[t.c] for t in ri.tx])) > 1 for ri in F.pubs()):
        vd.label("resumed_in_flight")


# ====================================================================== C09

def mon_c09(w, F, vd):
    nontriv = False
    for ri in F.pubs():
        if ri.qos != 2 or not ri.accepted:
            continue
        recs = [k for k in ri.acks if k[3] == "PUBREC"]
        comps = [k for k in ri.acks if k[3] == "PUBCOMP"]
        if ri.rel:
            first_rel = ri.rel[0]
            if not recs or recs[0][0] > first_rel.ei:
                vd.bad("C09.pubrel_before_pubrec", "publish #%d: PUBREL id %d written with no PUBREC received" % (
                    ri.rid, first_rel.f["id"]))
            for tx in ri.tx:
                if tx.ei > first_rel.ei and (ri.fire is None or tx.ei < ri.fire[0]):
                    vd.bad("C09.publish_after_pubrel", "publish #%d: PUBLISH id %d written again after its PUBREL (context %r)" % (
                        ri.rid, tx.f["id"], tx.ctx[:2] if tx.ctx else None))
                    break
        if ri.fire and ri.fire[3] == "ok":
            if not comps or comps[0][0] > ri.fire[0]:
                vd.bad("C09.ended_without_pubcomp", "publish #%d qos 2 completed without PUBCOMP" % ri.rid)
        if ri.fire is not None:
            for t in ri.rel:
                if t.ei > ri.fire[0]:
                    vd.bad("C09.pubrel_after_end", "publish #%d: PUBREL id %d written %.3fs after the exchange ended (%s)" % (
                        ri.rid, t.f["id"], t.t - ri.fire[2], _trigger(t.ctx)))
                    break
        if recs and not ri.rel:
            vd.bad("C09.no_pubrel_after_pubrec", "publish #%d: PUBREC delivered but no PUBREL written" % ri.rid)
        # classification: an expiry or a loss between PUBREC and PUBCOMP, or a duplicated PUBREC
        if recs:
            end = comps[0][0] if comps else (ri.fire[0] if ri.fire else len(w.log))
            if len(ri.rel) > 1 or any(e.k == "lost" and recs[0][0] < e.i < end and w.conns[e.c].a == ri.a for e in w.log):
                nontriv = True
    # a PUBREL nobody can account for
    for tx in F.unattributed:
        if tx.kind == "PUBREL":
            a = w.conns[tx.c].a
            prior = [e for e in F.rx if e.i < tx.ei and e.d["desc"][0] == "PUBREC" and e.d["desc"][1] == tx.f["id"]
                     and w.conns[e.c].a == a]
            if not prior:
                vd.bad("C09.pubrel_before_pubrec", "PUBREL id %d written, no PUBREC for it was ever received" % tx.f["id"])
    for e in F.rx:
        if e.d["desc"][0] == "PUBREC" and e.d["desc"][-1] == 3:
            nontriv = True
    # the identifier becomes free only on PUBCOMP or when the session is discarded
    open_q2 = {}
    for e in w.log:
        if e.k == "api":
            ri = F.info.get(e.d["rid"])
            if ri is not None and ri.accepted and isinstance(ri.msgid, int) and not (ri.kind == "publish" and ri.qos == 0):
                o = open_q2.get(ri.msgid)
                if o is not None:
                    vd.bad("C09.id_freed_before_pubcomp", "%s #%d was given id %d while the QoS 2 exchange of publish #%d (%s) is still open" % (
                        ri.kind, ri.rid, ri.msgid, o, _stage(F.info[o], e.i)))
                if ri.kind == "publish" and ri.qos == 2:
                    open_q2[ri.msgid] = ri.rid
        elif e.k == "fire":
            for i_, o in list(open_q2.items()):
                if o == e.d["rid"]:
                    del open_q2[i_]
        elif e.k == "walk":
            for (what, mid, other) in e.d["bad"]:
                if what == "reused" and other is not None and other >= 0 and other in F.info and F.info[other].qos == 2:
                    vd.bad("C09.id_freed_before_pubcomp", "walk: a new publish was given id %d while the QoS 2 exchange of publish #%d (%s) is still open" % (
                        mid, other, _stage(F.info[other], e.i)))
            if e.d["wrapped"]:
                nontriv = True
    vd.nontrivial = nontriv


# ====================================================================== C17

def mon_c17(w, F, vd):
    wrapped = False
    unfinished = {}          # id -> rid (any address: one factory)
    last_id = None
    for e in w.log:
        if e.k == "write" and e.d["where"] == "wire":
            for fr in e.d["frames"]:
                if fr[0] in ("PUBLISH", "PUBREL", "SUBSCRIBE", "UNSUBSCRIBE"):
                    i = fr[1].get("id")
                    if fr[0] == "PUBLISH" and not fr[1]["qos"]:
                        continue
                    if not (isinstance(i, int) and 1 <= i <= 65535):
                        vd.bad("C17.id_range", "%s carries packet id %r" % (fr[0], i))
                elif fr[0] == "MALFORMED" and "packet id 0" in str(fr[1]):
                    vd.bad("C17.id_range", "packet with id 0 written")
        elif e.k == "api":
            r = w.reqs[e.d["rid"]]
            ri = F.info.get(r.rid)
            if ri is None or not ri.accepted or (ri.kind == "publish" and ri.qos == 0):
                continue
            i = r.msgid
            if not (isinstance(i, int) and not isinstance(i, bool) and 1 <= i <= 65535):
                vd.bad("C17.id_range", "%s request #%d got msgId %r" % (r.kind, r.rid, i))
                continue
            if last_id is not None and i < last_id:
                wrapped = True
            last_id = i
            if i in unfinished:
                o = unfinished[i]
                vd.bad("C17.id_reused", "%s #%d was given id %d while %s #%d carrying it is unfinished" % (
                    r.kind, r.rid, i, w.reqs[o].kind, o))
            unfinished[i] = r.rid
        elif e.k == "fire":
            rid = e.d["rid"]
            for i, o in list(unfinished.items()):
                if o == rid:
                    del unfinished[i]
    for e in w.log:
        if e.k == "walk":
            if e.d["wrapped"]:
                wrapped = True
                if e.d["n_unfinished"]:
                    vd.label("walk_wrapped_with_unfinished")
            for (what, mid, other) in e.d["bad"]:
                if what == "range":
                    vd.bad("C17.id_range", "walk: publish got msgId %r" % (mid,))
                elif what == "reused":
                    vd.bad("C17.id_reused", "walk: a new publish was given id %d while %s #%s carrying it is unfinished" % (
                        mid, w.reqs[other].kind if other is not None and other >= 0 else "request", other))
                else:
                    vd.bad("C17.walk_failed", "walk: publish with id %r failed: %s" % (mid, other))
    vd.nontrivial = wrapped and True
    if wrapped:
        vd.label("wrapped")
    if wrapped and unfinished:
        vd.label("wrapped_with_unfinished")


# ====================================================================== C18

def mon_c18(w, F, vd):
    nontriv = False
    for conn in w.conns:
        frames = [fr for fr in conn.frames if fr[4] == "wire"]
        kinds = [fr[1] for fr in frames]
        for (ei, kind, f, raw, where) in frames:
            if kind == "MALFORMED":
                vd.bad("C18.malformed", "connection %d: %s (first byte %02x)" % (conn.idx, f, raw[0] if raw else 0))
            elif f.get("_soft"):
                vd.bad("C18.malformed", "connection %d: %s with %s (first byte %02x)" % (conn.idx, kind, "; ".join(f["_soft"]), raw[0]))
        if conn.residue:
            vd.bad("C18.partial_packet", "connection %d: %d bytes that are not a complete packet end the stream" % (
                conn.idx, len(conn.residue)))
        if kinds and kinds[0] != "CONNECT" and kinds[0] != "MALFORMED":
            vd.bad("C18.first_not_connect", "connection %d starts with %s" % (conn.idx, kinds[0]))
        n_connect = len([fr for fr in conn.frames if fr[1] == "CONNECT" and fr[4] in ("wire", "dropped")])
        # one CONNECT per connection; an application that calls connect() again on a protocol the broker has
        # refused (idle again, transport still open) asks for another one itself
        # ("idle" as the history defines it - never connected or refused, transport open - not as the library reports it)
        asked = len([r for r in w.reqs if r.kind == "connect" and r.conn is conn and getattr(r, "fresh", False)])
        if n_connect > max(1, asked):
            vd.bad("C18.second_connect", "connection %d: %d CONNECT packets written for %d connect() calls on an idle protocol" % (
                conn.idx, n_connect, asked))
        disc_ei = None
        for (ei, kind, f, raw, where) in frames:
            ctx = w.log[ei].ctx
            if kind == "CONNECT" and not (ctx and ctx[0] == "api" and ctx[1] == "connect"):
                vd.bad("C18.connect_outside_connect", "CONNECT written in context %r" % (ctx[:2] if ctx else None,))
            if disc_ei is not None and ei >= disc_ei:
                if not (ei == disc_ei and kind == "DISCONNECT"):
                    vd.bad("C18.after_disconnect", "%s written after DISCONNECT (trigger %s)" % (
                        kind, _trigger(ctx)))
            if kind == "DISCONNECT" and disc_ei is None:
                disc_ei = ei
                if not (ctx and ctx[0] == "api" and ctx[1] == "disconnect"):
                    vd.bad("C18.disconnect_outside_disconnect", "DISCONNECT written in context %r" % (ctx[:2] if ctx else None,))
                else:
                    closes = [x for x in w.log[ei:] if x.ctx is ctx and x.k in ("close", "abort")]
                    if not closes:
                        vd.bad("C18.disconnect_without_close", "disconnect() wrote DISCONNECT but did not ask the transport to close")
        closing_steps = 0
    for e in w.log:
        if e.k == "write" and e.d["where"] == "after_lost":
            vd.bad("C18.write_after_lost", "write of %d bytes after the connection was reported lost (trigger %s)" % (
                len(e.d["data"]), _trigger(e.ctx)))
    # classification: a step inside a closing interval, or >= 5 packet types on one stream
    closing = {}
    for e in w.log:
        if e.k in ("close", "abort"):
            closing[e.c] = e.step
        elif e.k == "lost":
            if e.c in closing and e.step > closing[e.c] + 0:
                if any(x.step > closing[e.c] and x.step < e.step and x.k in ("api", "timer") for x in w.log):
                    nontriv = True
            closing.pop(e.c, None)
    for conn in w.conns:
        if len(set(fr[1] for fr in conn.frames)) >= 5:
            nontriv = True
            vd.label("c18:five_packet_types")
    if any(e.k == "react" for e in w.log):
        vd.label("c18:api_call_from_callback")
    if any(e.k == "rx" and e.d["desc"][0] == "SEGMENT" for e in w.log):
        vd.label("c18:several_packets_in_one_segment")
    if nontriv:
        vd.label("c18:activity_in_closing_interval_or_5_types")
    vd.nontrivial = nontriv


def _trigger(ctx):
    if not ctx:
        return "?"
    if ctx[0] == "api":
        return "api:%s" % ctx[1]
    if ctx[0] == "timer":
        n = ctx[1]
        if "ping" in n.lower() or "LoopingCall" in n:
            return "timer:ping"
        return "timer:retry" if "rror" in n else "timer:%s" % n[-30:]
    if ctx[0] == "rx":
        return "rx:%s" % ctx[1]
    return ctx[0]


# ====================================================================== C06

def mon_c06(w, F, vd):
    if not (w.cfg["profile"] & 1):
        return
    store = {0: {}, 1: {}}            # addr -> id -> dict(topic,payload,retain,dups)
    handlers = {}
    phase = {}
    nontriv = False
    in_ctx = set()                     # indices of events accounted for by an inbound PUBLISH/PUBREL
    seen_ids = {0: set(), 1: set()}
    for e in w.log:
        if e.k == "handlers":
            handlers[e.c] = e.d["mask"]
        elif e.k == "phase":
            phase[e.c] = e.d["new"]
            if e.d["new"] == "connected" and w.conns[e.c].clean:
                # the broker has discarded its session: what the client still stores is left open by
                # the statement (the generator sends no PUBREL for it); a PUBLISH reusing the id is new
                for st in store[w.conns[e.c].a].values():
                    st["stale"] = True
        elif e.k == "lost":
            phase[e.c] = "lost"
            a = w.conns[e.c].a
            if store[a]:
                nontriv = True         # a reconnect inside an exchange
        elif e.k == "rx" and e.d["desc"][0] in ("PUBLISH", "PUBREL") and phase.get(e.c) == "connected":
            d = e.d["desc"]
            a = w.conns[e.c].a
            evs = _ctx_events(w, e)
            for x in evs:
                in_ctx.add(x.i)
            cbs = [x for x in evs if x.k == "cb" and x.d["name"] == "onPublish"]
            wr = [fr for x in evs if x.k == "write" for fr in x.d["frames"]]
            # what the application writes from inside onPublish (chained publish/subscribe/disconnect) is not an answer
            wr_k = [(fr[0], fr[1].get("id") if isinstance(fr[1], dict) else None) for fr in wr
                    if fr[0] in ("PUBACK", "PUBREC", "PUBCOMP", "MALFORMED")]
            has_h = bool(handlers.get(e.c, 0) & 2)
            if d[0] == "PUBLISH":
                _, qos, pid, dup, retain, topic, payload = d
                exp_cb = None
                if qos == 0:
                    exp_w = []
                    exp_cb = (topic, payload, 0, dup, retain, None)
                elif qos == 1:
                    exp_w = [("PUBACK", pid)]
                    exp_cb = (topic, payload, 1, dup, retain, pid)
                else:
                    exp_w = [("PUBREC", pid)]
                    if pid in store[a] and not store[a][pid].get("stale"):
                        nontriv = True                 # repeated PUBLISH before PUBREL
                        store[a][pid]["dups"].add(bool(dup))
                    else:
                        if store[a]:
                            nontriv = True             # interleaved exchanges
                        store[a][pid] = dict(topic=topic, payload=payload, retain=retain, dups={bool(dup)})
                if wr_k != exp_w:
                    vd.bad("C06.answer", "inbound PUBLISH qos %d id %s answered with %s, expected %s" % (qos, pid, wr_k, exp_w))
                if has_h:
                    if exp_cb is None and cbs:
                        vd.bad("C06.early_delivery", "QoS 2 PUBLISH id %s delivered before its PUBREL" % pid)
                    elif exp_cb is not None:
                        if len(cbs) != 1:
                            vd.bad("C06.delivery_count", "inbound PUBLISH qos %d delivered %d times" % (qos, len(cbs)))
                        else:
                            _cmp_delivery(vd, cbs[0], exp_cb, {bool(dup)})
            else:
                _, pid, sel = d
                if wr_k != [("PUBCOMP", pid)]:
                    vd.bad("C06.answer", "PUBREL id %s (selector %s) answered with %s, expected one PUBCOMP" % (pid, sel, wr_k))
                st = store[a].pop(pid, None)
                if st is not None and st.get("stale"):
                    pass                               # left open (see above)
                elif st is None:
                    nontriv = True                     # repeated / unknown PUBREL
                    if cbs:
                        vd.bad("C06.delivered_again", "PUBREL id %s with nothing stored delivered a message" % pid)
                elif has_h:
                    if len(cbs) != 1:
                        vd.bad("C06.delivery_count", "QoS 2 exchange id %s delivered %d times at PUBREL" % (pid, len(cbs)))
                    else:
                        _cmp_delivery(vd, cbs[0], (st["topic"], st["payload"], 2, None, st["retain"], pid), st["dups"])
    # nothing unprompted
    for e in w.log:
        if e.i in in_ctx:
            continue
        if e.k == "cb" and e.d["name"] == "onPublish":
            vd.bad("C06.unprompted_delivery", "onPublish called in context %r" % (e.ctx[:2] if e.ctx else None,))
        elif e.k == "write":
            for fr in e.d["frames"]:
                if fr[0] in ("PUBACK", "PUBREC", "PUBCOMP"):
                    vd.bad("C06.unprompted_ack", "%s id %s written in context %r" % (fr[0], fr[1].get("id"), e.ctx[:2] if e.ctx else None))
    vd.nontrivial = nontriv
    if nontriv:
        vd.label("c06:repeat_or_unknown_or_interleaved_or_reconnect")


def _cmp_delivery(vd, cb, exp, dups):
    d = cb.d
    topic, payload, qos, dup, retain, pid = exp
    got_payload = d["payload"]
    try:
        got_payload = bytes(got_payload)
    except Exception:  # noqa: BLE001
        pass
    if d["topic"] != topic or not isinstance(d["topic"], str):
        vd.bad("C06.delivery_topic", "delivered topic %r, sent %r" % (d["topic"][:40], topic[:40]))
    if got_payload != payload:
        vd.bad("C06.delivery_payload", "delivered payload of %d bytes, sent %d bytes" % (len(got_payload), len(payload)))
    if d["qos"] != qos:
        vd.bad("C06.delivery_qos", "delivered qos %r, sent %r" % (d["qos"], qos))
    if d["retain"] != retain:
        vd.bad("C06.delivery_retain", "delivered retain %r, sent %r" % (d["retain"], retain))
    if d["msgid"] != pid:
        vd.bad("C06.delivery_id", "delivered id %r, sent %r" % (d["msgid"], pid))
    if d["dup"] not in dups:
        vd.bad("C06.delivery_dup", "delivered dup %r, sent %r" % (d["dup"], sorted(dups)))


# ====================================================================== C07

def mon_c07(w, F, vd):
    if not (w.cfg["profile"] & 1):
        return
    nontriv = False
    window = {}
    phase = {}
    closed = set()
    pending = {"subscribe": {0: [], 1: []}, "unsubscribe": {0: [], 1: []}}
    at_loss = {}      # rid -> conn idx lost while pending and not failed there
    for e in w.log:
        k = e.k
        if k == "build":
            window[e.c] = 1
        elif k == "phase":
            phase[e.c] = e.d["new"]
        elif k in ("close", "abort"):
            closed.add(e.c)
        elif k == "api":
            r = w.reqs[e.d["rid"]]
            if r.kind == "setWindowSize" and r.ret == "none":
                window[e.c] = r.args[0]
                a = w.conns[e.c].a
                if pending["subscribe"][a] or pending["unsubscribe"][a]:
                    nontriv = True
            elif r.kind in ("subscribe", "unsubscribe"):
                a = w.conns[e.c].a
                if phase.get(e.c) != "connected" or e.c in closed or r.state_before != "connected":
                    continue
                if r.ret != "deferred":
                    vd.bad("C07.no_deferred", "%s() returned %s" % (r.kind, r.ret))
                    continue
                ri = F.info[r.rid]
                evs = _ctx_events(w, e)
                wrs = [fr for x in evs if x.k == "write" for fr in x.d["frames"]]
                npend = len(pending[r.kind][a])
                if npend < window.get(e.c, 1):
                    if not ri.accepted:
                        vd.bad("C07.refused_below_window", "%s #%d refused (%s) with %d pending and window %d" % (
                            r.kind, r.rid, type(r.fires[0][4]).__name__ if r.fires else "?", npend, window.get(e.c, 1)))
                        continue
                    pending[r.kind][a].append(r.rid)
                    K = r.kind.upper()
                    if len(wrs) != 1 or wrs[0][0] != K:
                        vd.bad("C07.not_one_packet", "%s #%d wrote %s" % (r.kind, r.rid, [x[0] for x in wrs]))
                    else:
                        f = wrs[0][1]
                        want = [tuple(t) for t in r.args["topics"]] if r.kind == "subscribe" else list(r.args["topics"])
                        got = [tuple(t) for t in f["topics"]] if r.kind == "subscribe" else list(f["topics"])
                        if got != want:
                            vd.bad("C07.topics", "%s #%d asked for %r, wrote %r" % (r.kind, r.rid, want, got))
                        if f["id"] != r.msgid:
                            vd.bad("C07.id_mismatch", "%s #%d: msgId %r, id on the wire %r" % (r.kind, r.rid, r.msgid, f["id"]))
                else:
                    ok = (not ri.accepted) and r.fires and type(r.fires[0][4]).__name__ == "MQTTWindowError"
                    if not ok:
                        vd.bad("C07.window_not_enforced", "%s #%d with %d pending and window %d: %s" % (
                            r.kind, r.rid, npend, window.get(e.c, 1),
                            "accepted" if ri.accepted else type(r.fires[0][4]).__name__))
                        if ri.accepted:
                            pending[r.kind][a].append(r.rid)
                    if wrs:
                        vd.bad("C07.window_error_wrote", "%s #%d refused but wrote %s" % (r.kind, r.rid, [x[0] for x in wrs]))
        elif k == "fire" and e.d["kind"] in ("subscribe", "unsubscribe"):
            rid = e.d["rid"]
            r = w.reqs[rid]
            ri = F.info[rid]
            a = ri.a
            if rid in pending[r.kind][a]:
                pending[r.kind][a].remove(rid)
            if not ri.accepted:
                continue
            if len(r.fires) > 1 and r.fires[0][0] != e.i:
                vd.bad("C07.fired_twice", "%s #%d fired twice" % (r.kind, rid))
            if e.d["out"] == "ok":
                rx = rx_event_of(w, e.i)
                want = "SUBACK" if r.kind == "subscribe" else "UNSUBACK"
                d = rx_part(rx, want, r.msgid)
                if d is None or w.conns[rx.c].a != a:
                    vd.bad("C07.success_without_ack", "%s #%d succeeded in context %r" % (r.kind, rid, e.ctx[:3] if e.ctx else None))
                else:
                    val = r.fires[0][4]
                    if r.kind == "subscribe":
                        exp = [((c, False) if c != 0x80 else (0, True)) for c in d[2]]
                        try:
                            got = [tuple(x) for x in val]
                        except Exception:  # noqa: BLE001
                            got = val
                        if got != exp:
                            vd.bad("C07.granted", "SUBACK codes %r gave %r, expected %r" % (list(d[2]), got, exp))
                    elif val != r.msgid:
                        vd.bad("C07.unsuback_value", "unsubscribe #%d callback value %r, msgId %r" % (rid, val, r.msgid))
        elif k == "rx" and e.d["desc"][0] in ("SUBACK", "UNSUBACK") and unsolicited(e) and phase.get(e.c) == "connected":
            nontriv = True
            d = e.d["desc"]
            evs = _ctx_events(w, e)
            for x in evs:
                if x.k == "fire":
                    vd.bad("C07.foreign_ack_fired", "%s id %s (selector %s) fired request #%s" % (d[0], d[1], d[-1], x.d.get("rid")))
                elif x.k == "write":
                    vd.bad("C07.foreign_ack_wrote", "%s id %s (selector %s) caused a write" % (d[0], d[1], d[-1]))
            if w.ops_done[e.step][0] == "rx":
                ta, tb = timers_before_after(w, F, e.step)
                if ta != tb:
                    vd.bad("C07.foreign_ack_timers", "%s id %s changed the pending timers" % (d[0], d[1]))
        elif k == "lost":
            a = w.conns[e.c].a
            evs = _ctx_events(w, e)
            failed = set(x.d["rid"] for x in evs if x.k == "fire")
            for kind in ("subscribe", "unsubscribe"):
                for rid in list(pending[kind][a]):
                    nontriv = True
                    if rid not in failed:
                        at_loss[rid] = e.c
    for e in F.already_called():
        vd.bad("C07.fired_twice", "AlreadyCalledError in %s" % (e.d["where"],))
    if any(e.d["desc"][0] in ("SUBACK", "UNSUBACK") and unsolicited(e) for e in F.rx):
        vd.label("c07:foreign_or_duplicate_ack")
        if any(e.d["desc"][-1] == 6 for e in F.rx if e.d["desc"][0] in ("SUBACK", "UNSUBACK")):
            vd.label("c07:ack_with_other_kinds_id")
    if at_loss or any(x.k == "fire" and x.d["kind"] in ("subscribe", "unsubscribe") and x.ctx and x.ctx[0] == "lose" for x in w.log):
        vd.label("c07:loss_with_pending")
    if any(len(ri.tx) > 1 for ri in F.reqs_of("subscribe") + F.reqs_of("unsubscribe")):
        vd.label("c07:retransmitted")
    # a request whose connection has gone: failed, or sent again on the next connection -- and never pending for ever
    for rid, c in at_loss.items():
        ri = F.info[rid]
        later = [cn for cn in w.conns if cn.a == ri.a and cn.idx > c and any(
            x.k == "phase" and x.c == cn.idx and x.d["new"] == "connected" for x in w.log)]
        if later:
            nxt = later[0]
            resent = any(t.c == nxt.idx for t in ri.tx)
            if not resent and not (ri.fire and ri.fire[3] == "err"):
                vd.bad("C07.neither_failed_nor_resent", "%s #%d pending at the loss was neither failed nor sent again on the next connection" % (
                    ri.kind, rid))
    ops = w.ops_done
    if len(ops) >= 2 and ops[-1][0] == "idle" and ops[-2][0] == "settle":
        # the broker answered everything it was sent on the connection that is up at the end
        settled = set(o[1] for o in ops[-3:-1] if o[0] == "settle")
        for ri in F.reqs_of("subscribe") + F.reqs_of("unsubscribe"):
            if ri.accepted and ri.fire is None:
                cur = w.cur.get(ri.a)
                if cur is not None and cur.phase == "connected" and cur.closed is None and not cur.lost \
                        and ri.a in settled:
                    vd.bad("C07.pending_forever", "%s #%d still pending after the broker answered everything" % (ri.kind, ri.rid))
    vd.nontrivial = nontriv


# ====================================================================== C04

def mon_c04(w, F, vd):
    nontriv = False
    for e in F.already_called():
        vd.bad("C04.fired_twice", "AlreadyCalledError in %s" % (e.d["where"],))
    for r in w.reqs:
        if r.kind != "connect" or not getattr(r, "valid", True) or not getattr(r, "fresh", False):
            continue
        if r.state_before != "idle":
            continue
        conn = r.conn
        api = next(e for e in w.log if e.k == "api" and e.d["rid"] == r.rid)
        evs = _ctx_events(w, api)
        wrs = [x for x in evs if x.k == "write"]
        if r.ret != "deferred":
            vd.bad("C04.no_deferred", "connect() with valid arguments on an idle protocol returned %s %r" % (r.ret, type(r.exc).__name__))
            continue
        if r.fires and r.fires[0][1] == r.step and w.log[r.fires[0][0]].ctx is api.ctx:
            vd.bad("C04.rejected", "connect() with valid arguments on an idle protocol failed at once with %s" % type(r.fires[0][4]).__name__)
            continue
        from . import refcodec as R
        from .codec import tobytes
        kw = r.args
        want = R.ref_encode("CONNECT", dict(
            client_id=kw["clientId"], keepalive=kw["keepalive"], clean=kw["cleanStart"],
            will_topic=kw.get("willTopic"), will_message=tobytes(kw["willMessage"]) if kw.get("willMessage") is not None else None,
            will_qos=kw.get("willQoS", 0), will_retain=kw.get("willRetain", False), username=kw.get("username"),
            password=tobytes(kw["password"]) if kw.get("password") is not None else None), kw["version"]["level"])
        data = b"".join(x.d["data"] for x in wrs)
        if len(wrs) != 1 or data != want:
            vd.bad("C04.connect_packet", "connect() wrote %d chunk(s) %s..., expected %s..." % (len(wrs), data[:24].hex(), want[:24].hex()))
        if r.state_after != "connecting":
            pass   # protocol.state naming is internal; not judged here
        # what happened next on this connection
        t0 = r.t
        limit = t0 + (kw["keepalive"] or 10)
        first_connack = None
        lost_ev = None
        # this handshake ends where the next accepted connect() on the same protocol begins
        nxt = [x.i for x in w.log[api.i + 1:] if x.k == "api" and x.d["op"] == "connect" and x.c == conn.idx
               and getattr(w.reqs[x.d["rid"]], "fresh", False) and w.reqs[x.d["rid"]].ret == "deferred"]
        hs_end = nxt[0] if nxt else len(w.log)
        for e in w.log[api.i:hs_end]:
            if e.c != conn.idx:
                continue
            if e.k == "rx" and e.d["desc"][0] == "CONNACK" and first_connack is None:
                first_connack = e
            elif e.k == "lost":
                lost_ev = e
                break
        if len(r.fires) > 1:
            vd.bad("C04.fired_twice", "connect Deferred fired %d times" % len(r.fires))
        end_t = w.now()
        if first_connack is not None and (not r.fires or r.fires[0][0] > first_connack.i):
            code, sp = first_connack.d["desc"][1], first_connack.d["desc"][2]
            inside = [x for x in _ctx_events(w, first_connack) if x.k == "fire" and x.d["rid"] == r.rid]
            if not inside:
                vd.bad("C04.connack_no_outcome", "CONNACK code %d did not fire the connect Deferred" % code)
            else:
                f = r.fires[0]
                st_after = F.step_end[first_connack.step].d["states"]
                st = dict(st_after).get(conn.idx)
                if any(x.k == "api" and x.d["op"] in ("connect", "disconnect") for x in _ctx_events(w, first_connack)):
                    st = None       # the application called connect()/disconnect() from inside the callbacks: the state moved on
                if code == 0:
                    if f[3] != "ok" or f[4] != bool(sp) or f[4] is None:
                        vd.bad("C04.accept_outcome", "CONNACK 0 sp=%d gave %s %r" % (sp, f[3], f[4]))
                    if st in ("idle", "connecting") and w.ops_done[first_connack.step][0] == "rx":
                        vd.bad("C04.state_after_accept", "protocol.state is %s after CONNACK 0" % st)
                else:
                    nontriv = True
                    if f[3] != "err" or type(f[4]).__name__ != "MQTTStateError":
                        vd.bad("C04.refuse_outcome", "CONNACK code %d gave %s %s" % (code, f[3], type(f[4]).__name__))
                    if st in ("connecting", "connected") and w.ops_done[first_connack.step][0] == "rx":
                        vd.bad("C04.state_after_refuse", "protocol.state is %s after CONNACK code %d" % (st, code))
        elif r.fires:
            f = r.fires[0]
            ctx = w.log[f[0]].ctx
            nontriv = True
            if ctx and ctx[0] == "timer":
                if type(f[4]).__name__ != "MQTTTimeoutError" or f[3] != "err":
                    vd.bad("C04.timeout_outcome", "CONNACK timeout gave %s %s" % (f[3], type(f[4]).__name__))
                if abs(f[2] - limit) > EPS:
                    vd.bad("C04.timeout_instant", "CONNACK timeout fired at t0+%.3f, expected t0+%s" % (f[2] - t0, kw["keepalive"] or 10))
                if lost_ev is None or lost_ev.i > f[0]:
                    ab = [x for x in w.log if x.ctx is ctx and x.k in ("abort", "close")]
                    if not ab:
                        vd.bad("C04.timeout_no_close", "CONNACK timeout did not close the transport")
            elif ctx and ctx[0] == "lose":
                if f[3] != "err":
                    vd.bad("C04.loss_outcome", "connection lost during the handshake gave success")
            else:
                vd.bad("C04.outcome_context", "connect Deferred fired %s in context %r" % (f[3], ctx[:3] if ctx else None))
        else:
            # never fired: only acceptable if the history ended before the deadline
            if end_t > limit + EPS and hs_end == len(w.log):
                vd.bad("C04.never_fired", "connect Deferred still pending %.1fs after connect() (limit %s)" % (end_t - t0, kw["keepalive"] or 10))
        # duplicate CONNACKs change nothing
        seen = 0
        for e in w.log[api.i:hs_end]:
            if e.c == conn.idx and e.k == "rx" and e.d["desc"][0] == "CONNACK":
                seen += 1
                if seen >= 2:
                    nontriv = True
                    evs2 = _ctx_events(w, e)
                    if any(x.k in ("fire", "write", "cb", "abort", "close") for x in evs2):
                        vd.bad("C04.second_connack", "a second CONNACK caused %s" % sorted(set(x.k for x in evs2)))
                    if w.ops_done[e.step][0] == "rx":
                        a_, b_ = F.step_end.get(e.step - 1), F.step_end.get(e.step)
                        if a_ and b_ and (dict(a_.d["states"]).get(conn.idx) != dict(b_.d["states"]).get(conn.idx)):
                            vd.bad("C04.second_connack", "a second CONNACK changed protocol.state")
                        ta, tb = timers_before_after(w, F, e.step)
                        if ta != tb:
                            vd.bad("C04.second_connack", "a second CONNACK changed the pending timers")
    # loss notification
    handlers = {}
    for e in w.log:
        if e.k == "handlers":
            handlers[e.c] = e.d["mask"]
    api_i = dict((e.d["rid"], e.i) for e in w.log if e.k == "api")   # a call made from a callback of the loss is not "pending"
    notif = {}
    for e in w.log:
        if e.k == "cb" and e.d["name"] == "onDisconnection":
            notif.setdefault(e.c, []).append(e)
    for e in w.log:
        if e.k != "lost":
            continue
        nontriv = nontriv or e.d["phase"] != "connected"
        conn = w.conns[e.c]
        # pending requests are failed or preserved as the session mode of this connection demands
        evs_loss = _ctx_events(w, e)
        if conn.clean is False:
            for x in evs_loss:
                if x.k == "fire" and x.d["kind"] == "publish" and api_i.get(x.d["rid"], -1) < e.i:
                    vd.bad("C04.session_mode_at_loss", "publish #%d fired %s(%s) when a connection opened with cleanStart=False was lost (%s)" % (
                        x.d["rid"], x.d["out"], x.d["val"], e.d["phase"]))
        elif conn.clean is True:
            failed = set(x.d["rid"] for x in evs_loss if x.k == "fire" and x.d["out"] == "err")
            for ri in F.info.values():
                if ri.conn is conn and ri.accepted and not (ri.kind == "publish" and ri.qos == 0) \
                        and (ri.fire is None or ri.fire[0] > e.i) and ri.rid not in failed:
                    vd.bad("C04.session_mode_at_loss", "%s #%d still pending after a connection opened with cleanStart=True was lost (%s)" % (
                        ri.kind, ri.rid, e.d["phase"]))
        st = dict(F.step_end[e.step].d["states"]).get(e.c) if e.step in F.step_end else None
        if st in ("connecting", "connected"):
            vd.bad("C04.not_idle_after_loss", "protocol.state is %s after the connection was lost" % st)
        had = bool(handlers_at(w, e) & 1)
        got = notif.get(e.c, [])
        if had:
            if len(got) > 1:
                vd.bad("C04.notified_twice", "onDisconnection called %d times for one loss" % len(got))
            elif len(got) == 1:
                g = got[0]
                robj = g.d["robj"]
                val = getattr(robj, "value", robj)
                if val is not conn.lost_reason:
                    vd.bad("C04.notification_reason", "onDisconnection got %r, the loss was %r" % (type(val).__name__, type(conn.lost_reason).__name__))
                evs_l = _ctx_events(w, e)
                if g.i < (evs_l[-1].i if evs_l else e.i):
                    vd.bad("C04.notification_order", "onDisconnection ran before the pending requests were dealt with")
            elif w.now() > e.t + 0.1 + EPS:
                vd.bad("C04.not_notified", "onDisconnection was set but not called within %.1fs of the loss" % (w.now() - e.t))
        elif got:
            vd.bad("C04.notified_unset", "onDisconnection called although no handler was set at the loss")
    for e in w.log:
        if e.k == "lost":
            vd.label("c04:lost_while_%s" % e.d["phase"])
        elif e.k == "rx" and e.d["desc"][0] == "CONNACK":
            vd.label("c04:connack_%s" % ("0" if e.d["desc"][1] == 0 else "1-5" if e.d["desc"][1] <= 5 else "reserved"))
    for c, lst in notif.items():
        if not w.conns[c].lost:
            vd.bad("C04.notified_without_loss", "onDisconnection called on a connection that was not lost")
    vd.nontrivial = nontriv


def handlers_at(w, ev):
    m = 0
    for e in w.log[:ev.i]:
        if e.k == "handlers" and e.c == ev.c:
            m = e.d["mask"]
    return m


# ====================================================================== retransmittable packets (C08, C13)

class Packet(object):
    """one retransmittable packet: PUBLISH/SUBSCRIBE/UNSUBSCRIBE of a request, or the PUBREL of a
    QoS 2 publish; tx = its transmissions, acked_ei = index of the delivery that acknowledged it"""

    def __init__(self, kind, ri, tx):
        self.kind, self.ri, self.tx = kind, ri, tx
        self.acked_ei = None
        self.dead_ei = None


def packets(w, F):
    out = []
    for ri in F.info.values():
        if not ri.accepted or (ri.kind == "publish" and ri.qos == 0):
            continue
        K = ri.kind.upper()
        p = Packet(K, ri, ri.tx)
        want = {"PUBLISH": ("PUBACK", "PUBREC"), "SUBSCRIBE": ("SUBACK",), "UNSUBSCRIBE": ("UNSUBACK",)}[K]
        for a in ri.acks:
            if a[3] in want:
                p.acked_ei = a[0]
                break
        if ri.fire is not None:
            p.dead_ei = ri.fire[0]
        out.append(p)
        if ri.kind == "publish" and ri.qos == 2 and ri.rel:
            q = Packet("PUBREL", ri, ri.rel)
            for a in ri.acks:
                if a[3] == "PUBCOMP":
                    q.acked_ei = a[0]
                    break
            if ri.fire is not None:
                q.dead_ei = ri.fire[0]
            out.append(q)
    return out


def conn_timeline(w):
    """conn idx -> dict(connected_ei, end_ei (close/abort/lost), lost_ei)"""
    tl = {}
    for e in w.log:
        if e.k == "build":
            tl[e.c] = dict(connected_ei=None, end_ei=None, lost_ei=None, closed_ei=None)
        elif e.k == "phase" and e.d["new"] == "connected":
            tl[e.c]["connected_ei"] = e.i
        elif e.k in ("close", "abort"):
            if tl[e.c]["closed_ei"] is None:
                tl[e.c]["closed_ei"] = e.i
            if tl[e.c]["end_ei"] is None:
                tl[e.c]["end_ei"] = e.i
        elif e.k == "lost":
            tl[e.c]["lost_ei"] = e.i
            if tl[e.c]["end_ei"] is None:
                tl[e.c]["end_ei"] = e.i
    return tl


def mon_c08(w, F, vd):
    nontriv = False
    ver = w.cfg.get("version", 4)
    tl = conn_timeline(w)
    # initial timeout in force per connection over time
    timeouts = {}
    for e in w.log:
        if e.k == "build":
            timeouts[e.c] = [(e.i, 4)]
        elif e.k == "api" and e.d["op"] == "setTimeout" and e.d.get("ret") == "none":
            timeouts[e.c].append((e.i, e.d["args"][0]))

    def min_timeout(c, lo_ei, hi_ei):
        vals = []
        cur = 4
        for (ei, v) in timeouts.get(c, [(0, 4)]):
            if ei <= lo_ei:
                cur = v
            elif ei <= hi_ei:
                vals.append(v)
        vals.append(cur)
        return min(vals)

    for e in F.escapes:
        if e.d["where"].startswith("timer:"):
            vd.bad("C08.timer_raised", "%s in %s" % (e.d["exc"], e.d["where"].split(".")[-1]))
    for p in packets(w, F):
        if not p.tx:
            continue
        first = p.tx[0]
        if first.f.get("dup"):
            # PUBREL/SUB/UNSUB under 3.1.1 never decode a dup; PUBLISH first transmission must have DUP=0
            vd.bad("C08.first_with_dup", "%s of request #%d first transmitted with DUP=1" % (p.kind, p.ri.rid))
        by_conn = {}
        for t in p.tx:
            by_conn.setdefault(t.c, []).append(t)
        first_conn = first.c
        for c, txs in by_conn.items():
            for j, t in enumerate(txs):
                is_first_overall = (t is first)
                # content identical except DUP
                if bytes([t.raw[0] & 0xF7]) + t.raw[1:] != bytes([first.raw[0] & 0xF7]) + first.raw[1:]:
                    vd.bad("C08.content_changed", "%s of request #%d retransmitted with different content" % (p.kind, p.ri.rid))
                if not is_first_overall:
                    ver = w.conns[t.c].version or w.cfg.get("version", 4)     # of the connection it is written on
                    want_dup = True if p.kind == "PUBLISH" else (ver == 3)
                    got_dup = bool(t.raw[0] & 0x08)
                    if got_dup != want_dup:
                        vd.bad("C08.dup_flag", "%s of request #%d repeated with DUP=%d under protocol level %d" % (
                            p.kind, p.ri.rid, got_dup, ver))
                if j >= 1:
                    nontriv = nontriv or j >= 2
                    # (b) repeats on one connection only on timer expiry
                    if not (t.ctx and t.ctx[0] == "timer"):
                        vd.bad("C08.repeat_outside_timer", "%s of request #%d repeated in context %r" % (
                            p.kind, p.ri.rid, t.ctx[:2] if t.ctx else None))
                    # a repeat after the acknowledgement / settlement is C13's business; here: gaps
                    gap = t.t - txs[j - 1].t
                    api_ei = next((x.i for x in w.log if x.k == "api" and x.d["rid"] == p.ri.rid), 0)
                    base_c = p.ri.conn.idx
                    if p.kind == "PUBREL":
                        lim = min_timeout(first.c, first.ei, first.ei)
                    else:
                        lim = min_timeout(base_c, api_ei, first.ei)
                    if gap < lim - EPS:
                        vd.bad("C08.gap_too_short", "%s of request #%d resent after %.3fs, initial timeout %s" % (
                            p.kind, p.ri.rid, gap, lim))
                    if p.kind == "PUBLISH" and j >= 2:
                        prev = txs[j - 1].t - txs[j - 2].t
                        if gap < prev - EPS:
                            vd.bad("C08.gap_shrank", "PUBLISH of request #%d: gaps %.3f then %.3f" % (p.ri.rid, prev, gap))
                elif c != first_conn:
                    pass    # resumed on a later connection: C12 judges where and when
        # (c) every expiry resends: a packet unacknowledged on a live connected connection always has a timer
    # (c) bounded liveness, two ways
    #  1. at every step end: pending delayed calls >= unacknowledged packets on connections that are up
    pk = packets(w, F)
    for step, se in F.step_end.items():
        ei = se.i
        n_unacked = 0
        for p in pk:
            if not p.tx:
                continue
            last = None
            for t in p.tx:
                if t.ei < ei:
                    last = t
            if last is None:
                continue
            c = last.c
            t_ = tl.get(c)
            if t_ is None or t_["connected_ei"] is None or t_["connected_ei"] > ei:
                continue
            if t_["end_ei"] is not None and t_["end_ei"] < ei:
                continue
            if (p.acked_ei is not None and p.acked_ei < ei) or (p.dead_ei is not None and p.dead_ei < ei):
                continue
            if last.where != "wire":
                continue
            n_unacked += 1
        if n_unacked > len(se.d["pending"]):
            vd.bad("C08.no_retry_timer", "%d unacknowledged packets on live connections but only %d timers pending" % (
                n_unacked, len(se.d["pending"])))
            break
    #  2. the retry tail appended by the generator (op 'retrytail') records its own verdict
    reps = {}
    for p in pk:
        if len(p.tx) > 1:
            reps[p.kind] = max(reps.get(p.kind, 0), len(p.tx) - 1)
    for k_, n_ in reps.items():
        vd.label("c08:%s_repeats_%s" % (k_, "1" if n_ == 1 else "2-5" if n_ <= 5 else "6-20" if n_ <= 20 else "21+"))
    vd.label("c08:v%d" % ver)
    for e in w.log:
        if e.k == "retrytail":
            for (kind, rid, seen, need) in e.d["short"]:
                vd.bad("C08.stopped_retrying", "%s of request #%d was resent %d times in a tail that let every timer fire (needed %d)" % (
                    kind, rid, seen, need))
            if e.d["tracked"]:
                nontriv = True
    vd.nontrivial = nontriv


# ====================================================================== C13

def mon_c13(w, F, vd):
    nontriv = False
    tl = conn_timeline(w)
    pk = packets(w, F)
    # (a) nothing is written for a settled request
    for ri in F.info.values():
        if not ri.accepted:
            continue
        if ri.kind == "publish" and ri.qos == 0:
            if len(ri.tx) > 1:
                vd.bad("C13.written_after_settled", "QoS 0 publish #%d written %d times" % (ri.rid, len(ri.tx)))
            continue
        if ri.fire is None:
            continue
        fe = ri.fire[0]
        for t in list(ri.tx) + list(ri.rel):
            if t.ei > fe:
                vd.bad("C13.written_after_settled", "%s for request #%d written %.3fs after its Deferred fired (%s)" % (
                    t.kind, ri.rid, t.t - ri.fire[2], _trigger(t.ctx)))
                break
        if w.now() - ri.fire[2] >= 1.0:
            nontriv = True
    # (d) nothing is written to a transport once its connection was reported lost
    for e in w.log:
        if e.k == "write" and e.d["where"] == "after_lost":
            vd.bad("C13.write_after_lost", "write after the connection was reported lost (%s)" % _trigger(e.ctx))
    # (b)/(c)/(d) the number of pending timers is bounded by what can justify one
    notif_pending = []      # (due time) of undelivered notifications
    handlers = {}
    connack_timers = {}     # conn idx -> due time, while running
    keepalive = {}
    for e in w.log:
        k = e.k
        if k == "handlers":
            handlers[e.c] = e.d["mask"]
        elif k == "api" and e.d["op"] == "connect":
            r = w.reqs[e.d["rid"]]
            if r.ret == "deferred" and getattr(r, "fresh", False) and getattr(r, "valid", True) and not (
                    r.fires and r.fires[0][1] == r.step and w.log[r.fires[0][0]].ctx is e.ctx):
                connack_timers[e.c] = e.t + (r.args["keepalive"] or 10)
                keepalive[e.c] = r.args["keepalive"]
        elif k == "rx" and e.d["desc"][0] == "CONNACK":
            connack_timers.pop(e.c, None)
        elif k == "lost":
            if handlers.get(e.c, 0) & 1:
                notif_pending.append(e.t + 0.1)
            if any(True for _ in se_pending(F, e.step)):
                nontriv = True
        elif k == "cb" and e.d["name"] == "onDisconnection":
            if notif_pending:
                notif_pending.pop(0)          # delivered (events, not float comparisons, say when)
        elif k == "fire" and e.d["kind"] == "connect" and e.ctx and e.ctx[0] == "timer":
            connack_timers.pop(e.c, None)     # the CONNACK timeout has run
        elif k == "timers":
            now = e.t
            ei = e.i
            n_out = 0
            n_ka = 0
            any_connected_quiet = False
            for c, t_ in tl.items():
                if t_["lost_ei"] is not None and t_["lost_ei"] < ei:
                    continue
                if t_["connected_ei"] is not None and t_["connected_ei"] < ei and keepalive.get(c, 0):
                    # the loop, the deadline of the PINGREQ just written and -- for the instant in which both are
                    # due -- the deadline of the previous, unanswered one
                    n_ka += 3
            for p in pk:
                if not p.tx:
                    continue
                last = None
                for t in p.tx:
                    if t.ei < ei:
                        last = t
                if last is None:
                    continue
                t_ = tl.get(last.c)
                if t_ is None or (t_["lost_ei"] is not None and t_["lost_ei"] < ei):
                    continue
                if (p.acked_ei is not None and p.acked_ei < ei) or (p.dead_ei is not None and p.dead_ei < ei):
                    continue
                n_out += 1
            bound = n_out + len(notif_pending) + len(connack_timers) + n_ka
            # timers due in this very instant (within a microsecond) are about to run; a real reactor would not
            # have stopped between them
            n_pending = len([t for t, _ in e.d["pending"] if t > now + 1e-6])
            if n_pending > bound:
                vd.bad("C13.stray_timer", "%d timers pending; justified: %d unacknowledged packets + %d notifications + %d CONNACK timers + %d keepalive" % (
                    n_pending, n_out, len(notif_pending), len(connack_timers), n_ka))
                break
    if any(e.k == "lost" for e in w.log):
        vd.label("c13:loss")
    if any(e.k == "react" for e in w.log):
        vd.label("c13:api_call_from_callback")
    if any(ri.fire is not None and w.now() - ri.fire[2] >= 1.0 for ri in F.info.values()):
        vd.label("c13:settled_then_time_passes")
    # early resend by a second timer: two transmissions of one packet closer than C08 allows are
    # reported by C08.gap_too_short; here: a retransmission in a timer while another timer for the same
    # packet is still pending shows up as stray_timer above.
    vd.nontrivial = nontriv


def se_pending(F, step):
    se = F.step_end.get(step - 1)
    return se.d["pending"] if se else []


# ====================================================================== C15

def mon_c15(w, F, vd):
    nontriv = False
    for e in F.escapes:
        w_ = e.d["where"]
        if "ping" in w_.lower() or "LoopingCall" in w_ or (e.ctx and e.ctx[0] == "rx" and e.ctx[1] == "PINGRESP") \
                or w_.startswith("log:"):
            vd.bad("C15.raised", "%s (%s) in %s" % (e.d["exc"], e.d["msg"][:60], w_[:40]))
    for conn in w.conns:
        if conn.keepalive is None:
            continue
        k = conn.keepalive
        pings = []       # (ei, t)
        resps = []       # (ei, t)
        t_up = None
        t_end = None
        end_ei = None
        lost_e = None
        aborts = []
        for e in w.log:
            if e.c != conn.idx:
                continue
            if e.k == "phase" and e.d["new"] == "connected":
                t_up = e.t
            elif e.k == "write" and any(fr[0] == "PINGREQ" for fr in e.d["frames"]):
                pings.append((e.i, e.t, e.d["where"]))
            elif e.k == "rx" and e.d["desc"][0] == "PINGRESP":
                resps.append((e.i, e.t))
            elif e.k in ("abort", "close"):
                aborts.append(e)
                if t_end is None:
                    t_end, end_ei = e.t, e.i
            elif e.k == "lost":
                if t_end is None:
                    t_end, end_ei = e.t, e.i
                lost_e = e
        if lost_e is not None:
            if any(pi > lost_e.i for (pi, pt, wh) in pings):
                vd.bad("C15.ping_after_loss", "PINGREQ written after the connection was lost")
            # (a CONNACK timeout left running by a loss during the handshake is tolerated by C13's statement;
            # only an established connection has keepalive timers)
            if t_up is not None and any(a.i > lost_e.i and a.t > lost_e.t + 1e-6 for a in aborts):
                vd.bad("C15.abort_after_loss", "keepalive closed a transport whose connection was already lost")
        if k == 0:
            if pings:
                vd.bad("C15.ping_with_keepalive_0", "PINGREQ written although keepalive is 0")
            continue
        if t_up is None:
            if pings:
                vd.bad("C15.ping_before_connack", "PINGREQ written before CONNACK")
            continue
        horizon = t_end if t_end is not None else w.now()
        # a reactor that runs its delayed calls late (op 'late') shifts everything by at most that much
        tol = EPS + getattr(w, "max_late", 0.0)
        # PINGREQ at least every k seconds from CONNACK to the end of the connection
        prev = t_up
        for (pi, pt, wh) in pings:
            if end_ei is not None and pi > end_ei:
                break
            if pt - prev > k + tol:
                vd.bad("C15.ping_gap", "keepalive %d: %.3fs without a PINGREQ" % (k, pt - prev))
                break
            prev = pt
        else:
            if horizon - prev > k + tol:
                vd.bad("C15.ping_gap", "keepalive %d: no PINGREQ for %.3fs while the connection was up" % (k, horizon - prev))
        # PINGRESP carries no identifier: each one answers the oldest PINGREQ still unanswered
        answered = {}
        waiting = []
        for (kind, ei, j, t) in sorted([("q", p[0], j, p[1]) for j, p in enumerate(pings)] +
                                       [("r", r[0], None, r[1]) for r in resps], key=lambda x: x[1]):
            if kind == "q":
                waiting.append(j)
                if len(waiting) >= 2 and (t_end is None or t < t_end - EPS):
                    vd.label("c15:two_pingreq_outstanding")
            elif waiting:
                answered[waiting.pop(0)] = t
        # unanswered PINGREQ => abort no later than t+k ; all answered in time => keepalive never closes
        all_in_time = True
        overdue = []      # (deadline, ping time) of PINGREQs not answered before their deadline
        for j, (pi, pt, wh) in enumerate(pings):
            if end_ei is not None and pi > end_ei:
                break
            if t_end is not None and t_end - pt <= EPS:
                continue          # written in the very instant the connection ended: nobody could have answered it
            at = answered.get(j)
            inside = at is not None and at < pt + k - EPS
            edge = at is not None and not inside and at <= pt + k + tol
            if not inside:
                all_in_time = False
                overdue.append((pt + k, pt))
                if not edge and horizon > pt + k + tol:
                    vd.bad("C15.no_abort", "PINGREQ at %.3f unanswered for keepalive %d but the connection was not aborted by %.3f" % (pt, k, pt + k))
                    break
                if not edge and t_end is not None and t_end > pt + k + tol:
                    vd.bad("C15.late_abort", "PINGREQ at %.3f unanswered, connection ended only at %.3f" % (pt, t_end))
                    break
        if pings:
            for a in aborts[:1]:
                if a.i == end_ei and a.ctx and a.ctx[0] == "timer" and not any(dl <= a.t + tol for (dl, pt) in overdue):
                    vd.bad("C15.closed_though_answered", "a timer closed the connection at %.3f although no PINGREQ had gone "
                           "unanswered for %d s (PINGREQs at %s, PINGRESPs at %s)" % (
                               a.t, k, ", ".join("%.3f" % p[1] for p in pings[-3:]), ", ".join("%.3f" % r[1] for r in resps[-3:])))
        n_periods = len([p for p in pings if end_ei is None or p[0] < end_ei])
        if n_periods >= 3 or (resps and not all_in_time) or len(resps) > len(pings):
            nontriv = True
        vd.label("c15:keepalive_%s" % (k if k in (1, 2, 3, 5, 7, 60, 65535) else "other"),
                 "c15:periods_%s" % ("0" if n_periods == 0 else "1-2" if n_periods < 3 else "3-9" if n_periods < 10 else "10+"))
        if getattr(w, "max_late", 0.0) > 1e-6:
            vd.label("c15:late_timer_passes")
        if pings and all_in_time:
            vd.label("c15:all_answered_in_time")
        if len(resps) > len(pings):
            vd.label("c15:surplus_pingresp")
        if aborts and aborts[0].ctx and aborts[0].ctx[0] == "timer":
            vd.label("c15:aborted_by_timer")
    if len([c for c in w.conns if c.keepalive]) >= 2:
        nontriv = True
    vd.nontrivial = nontriv


# ====================================================================== C11 / C12

def _stage(ri, ei):
    """stage of a publish/subscribe/unsubscribe request at event index ei"""
    tx = [t for t in ri.tx if t.ei < ei]
    if not tx:
        return "held_back"
    if any(t.ei < ei for t in ri.rel):
        return "pubrel_sent"
    if len(tx) > 1:
        return "retransmitted"
    return "sent"


def _loss_kind(w, e):
    """how the connection came to its end, for the labels"""
    c = e.c
    prior = [x for x in w.log[:e.i] if x.c == c and x.k in ("close", "abort")]
    if not prior:
        return "loss:%s" % e.d["reason"]
    p = prior[0]
    if p.k == "close":
        return "loss:disconnect()"
    if p.ctx and p.ctx[0] == "timer":
        return "loss:timeout_abort"
    return "loss:protocol_error_abort"


def mon_c11(w, F, vd):
    nontriv = False
    for e in F.already_called():
        vd.bad("C11.fired_twice", "AlreadyCalledError in %s" % (e.d["where"],))
    for e in w.log:
        if e.k != "lost":
            continue
        conn = w.conns[e.c]
        if conn.clean is not True:
            continue
        evs = _ctx_events(w, e)
        fired = {}
        for x in evs:
            if x.k == "fire":
                fired.setdefault(x.d["rid"], []).append(x)
        for ri in F.info.values():
            if ri.conn is not conn or not ri.accepted:
                continue
            if ri.kind == "publish" and ri.qos == 0:
                continue
            if ri.fire is not None and ri.fire[0] < e.i:
                continue
            nontriv = True
            vd.label("c11:%s:%s" % (ri.kind, _stage(ri, e.i)), _loss_kind(w, e))
            fs = fired.get(ri.rid, [])
            if not fs:
                vd.bad("C11.not_failed", "%s #%d (%s) still pending after the clean-session connection was lost" % (
                    ri.kind, ri.rid, _stage(ri, e.i)))
                continue
            if len(ri.req.fires) != 1:
                vd.bad("C11.fired_twice", "%s #%d fired %d times" % (ri.kind, ri.rid, len(ri.req.fires)))
            f = ri.req.fires[0]
            if f[3] != "err":
                vd.bad("C11.succeeded_at_loss", "%s #%d succeeded at the loss" % (ri.kind, ri.rid))
            elif f[4] is not conn.lost_reason:
                vd.bad("C11.wrong_reason", "%s #%d failed with %s, the loss was %s" % (
                    ri.kind, ri.rid, type(f[4]).__name__, type(conn.lost_reason).__name__))
    # nothing of a clean connection is carried over
    for ri in F.info.values():
        if ri.conn.clean is not True:
            continue
        for t in list(ri.tx) + list(ri.rel):
            if t.c != ri.conn.idx:
                vd.bad("C11.carried_over", "%s of %s #%d (made on clean connection %d, %s) written on connection %d" % (
                    t.kind, ri.kind, ri.rid, ri.conn.idx, "accepted" if ri.accepted else "refused", t.c))
                break
    vd.nontrivial = nontriv


def mon_c12(w, F, vd):
    nontriv = False
    cleared_at = {}        # rid -> event index after which nothing may be written for it
    for e in F.already_called():
        vd.bad("C12.fired_twice", "AlreadyCalledError in %s" % (e.d["where"],))
    pubs = [ri for ri in F.pubs() if ri.accepted]
    for e in w.log:
        if e.k == "lost":
            conn = w.conns[e.c]
            evs = _ctx_events(w, e)
            unfinished = [ri for ri in pubs if ri.a == conn.a and ri.qos and ri.req.step <= e.step and
                          (ri.fire is None or ri.fire[0] > e.i) and ri.req.rid < len(w.reqs)]
            unfinished = [ri for ri in unfinished if next(x.i for x in w.log if x.k == "api" and x.d["rid"] == ri.rid) < e.i]
            if conn.clean is False:
                if unfinished:
                    nontriv = True
                    for ri in unfinished:
                        vd.label("c12:lost:%s" % _stage(ri, e.i))
                made_before = set(ri.rid for ri in F.pubs() if ri.req.step < e.step or
                                  next(y.i for y in w.log if y.k == "api" and y.d["rid"] == ri.rid) < e.i)
                for x in evs:
                    # (a publish() called from a callback of the loss itself is refused: not a pending request)
                    if x.k == "fire" and x.d["kind"] == "publish" and x.d["rid"] in made_before:
                        vd.bad("C12.failed_on_persistent_loss", "publish #%d fired %s(%s) when the persistent-session connection was lost" % (
                            x.d["rid"], x.d["out"], x.d["val"]))
            elif conn.clean is True:
                # carried-over publishes on a clean connection lost before its CONNACK may fail with the
                # loss reason (C11's rule); they must not survive it
                for ri in unfinished:
                    if ri.conn is not conn and not any(x.k == "fire" and x.d["rid"] == ri.rid for x in evs):
                        vd.bad("C12.survived_clean_connection", "publish #%d carried over into a clean-session connection is still pending after its loss" % ri.rid)
        elif e.k == "rx" and e.d["desc"][0] == "CONNACK" and e.d["desc"][1] == 0:
            conn = w.conns[e.c]
            became = any(x.k == "phase" and x.c == e.c and x.d["new"] == "connected" and x.step == e.step
                         for x in w.log[max(0, e.i - 3):e.i])
            if not became:
                continue
            evs = _ctx_events(w, e)
            api_i = dict((x.d["rid"], x.i) for x in w.log if x.k == "api")
            carried = [ri for ri in pubs if ri.a == conn.a and ri.conn is not conn and api_i[ri.rid] < e.i and
                       (ri.fire is None or ri.fire[0] > e.i) and ri.rid not in cleared_at]
            own = [ri for ri in pubs if ri.conn is conn and api_i[ri.rid] < e.i]
            frames = []
            for x in evs:
                if x.k == "write":
                    for fr in x.d["frames"]:
                        frames.append((x, fr))
            if own:
                vd.label("c12:publish_before_connack")
            if conn.clean is False:
                vd.label("c12:resume")
                exp_rel = [ri for ri in carried if ri.qos == 2 and any(t.ei < e.i for t in ri.rel)
                           and not any(a_[3] == "PUBCOMP" and a_[0] < e.i for a_ in ri.acks)]
                exp_pub = [ri for ri in carried if ri.qos and any(t.ei < e.i and t.c != conn.idx for t in ri.tx) and ri not in exp_rel
                           and not any(a_[3] in ("PUBACK", "PUBREC") and a_[0] < e.i for a_ in ri.acks)]
                released_here = [ri for ri in carried if ri.qos and ri.tx and all(t.c == conn.idx for t in ri.tx if t.ei < e.i)
                                 and any(t.ei < e.i for t in ri.tx)]
                exp_pub.sort(key=lambda ri: ri.tx[0].ei)
                got_rel = [fr[1]["id"] for (x, fr) in frames if fr[0] == "PUBREL"]
                if sorted(got_rel) != sorted(ri.msgid for ri in exp_rel):
                    vd.bad("C12.pubrel_resume", "at CONNACK PUBREL ids %s were re-sent, unacknowledged PUBRELs are %s" % (
                        sorted(got_rel), sorted(ri.msgid for ri in exp_rel)))
                from .facts import marker_of
                got_pub = []
                for (x, fr) in frames:
                    if fr[0] == "PUBLISH":
                        rid = marker_of("PUBLISH", fr[1])
                        ri = F.info.get(rid)
                        if ri is None:
                            continue
                        if ri in exp_rel or (ri.qos == 2 and any(t.ei < e.i for t in ri.rel)):
                            vd.bad("C12.publish_resent_after_pubrel", "publish #%d: PUBLISH re-sent at CONNACK although its PUBREL is what is outstanding" % rid)
                        elif ri in exp_pub:
                            got_pub.append(ri)
                            first = ri.tx[0]
                            if not fr[1]["dup"]:
                                vd.bad("C12.resume_without_dup", "publish #%d re-sent at CONNACK with DUP=0" % rid)
                            if bytes([fr[2][0] & 0xF7]) + fr[2][1:] != bytes([first.raw[0] & 0xF7]) + first.raw[1:]:
                                vd.bad("C12.resume_content", "publish #%d re-sent with different id/topic/payload" % rid)
                        elif ri in released_here:
                            vd.bad("C12.released_then_resent", "publish #%d was held back, first sent on this connection before its CONNACK, and sent again by the resumption" % rid)
                        elif ri.conn is conn and any(t.ei < e.i for t in ri.tx):
                            vd.bad("C12.own_request_resent", "publish #%d was made on this connection before its CONNACK and was re-sent by the resumption" % rid)
                if [ri.rid for ri in got_pub] != [ri.rid for ri in exp_pub]:
                    vd.bad("C12.publish_resume", "at CONNACK publishes %s were re-sent, unacknowledged in original order are %s" % (
                        [ri.rid for ri in got_pub], [ri.rid for ri in exp_pub]))
                for x in evs:
                    if x.k == "fire" and x.d["kind"] == "publish" and api_i.get(x.d["rid"], e.i + 1) < e.i:
                        vd.bad("C12.fired_at_resume", "publish #%d fired %s(%s) inside the persistent CONNACK" % (
                            x.d["rid"], x.d["out"], x.d["val"]))
            elif conn.clean is True:
                vd.label("c12:clean_over_persistent" if carried else "c12:clean")
                fired = dict((x.d["rid"], x) for x in evs if x.k == "fire" and x.d["kind"] == "publish")
                for ri in carried:
                    if not ri.qos:
                        cleared_at[ri.rid] = e.i
                        continue
                    cleared_at[ri.rid] = e.i
                    x = fired.get(ri.rid)
                    if x is None:
                        vd.bad("C12.not_cleared", "publish #%d carried over (%s) was not failed when a clean session was established" % (
                            ri.rid, _stage(ri, e.i)))
                    elif x.d["out"] != "err" or x.d["val"] != "MQTTSessionCleared":
                        vd.bad("C12.cleared_with", "publish #%d carried over fired %s(%s), expected MQTTSessionCleared" % (
                            ri.rid, x.d["out"], x.d["val"]))
                for ri in own:
                    if ri.rid in fired:
                        vd.bad("C12.own_request_failed", "publish #%d made on this connection before its CONNACK was failed by the session purge (%s)" % (
                            ri.rid, fired[ri.rid].d["val"]))
                    for (x, fr) in frames:
                        if fr[0] == "PUBLISH":
                            from .facts import marker_of
                            if marker_of("PUBLISH", fr[1]) == ri.rid and any(t.ei < e.i for t in ri.tx):
                                vd.bad("C12.own_request_resent", "publish #%d re-sent by the clean CONNACK" % ri.rid)
    for rid, ei in cleared_at.items():
        ri = F.info[rid]
        for t in list(ri.tx) + list(ri.rel):
            if t.ei > ei:
                vd.bad("C12.resent_after_clear", "%s of publish #%d written after the session was cleared" % (t.kind, rid))
                break
    # the original Deferreds complete on the usual acknowledgements
    ops = w.ops_done
    if len(ops) >= 2 and ops[-1][0] == "idle" and ops[-2][0] == "settle":
        a = ops[-2][1]
        cur = w.cur.get(a)
        if cur is not None and cur.phase == "connected" and cur.closed is None and not cur.lost and not w.budget_hit:
            for ri in pubs:
                if ri.a == a and ri.qos and ri.fire is None:
                    vd.bad("C12.never_completed", "publish #%d (first made on connection %d) still pending after the broker answered everything on connection %d" % (
                        ri.rid, ri.conn.idx, cur.idx))
    vd.nontrivial = nontriv


# ====================================================================== C14

API_OPS = ("connect", "disconnect", "publish", "subscribe", "unsubscribe")


def _allowed(op, st, prof):
    if op == "connect":
        return st == "idle"
    if op == "disconnect":
        return st == "connected"
    if op == "publish":
        return bool(prof & 2) and st in ("connecting", "connected")
    return bool(prof & 1) and st == "connected"


def _belongs(kind, st, prof):
    if kind == "CONNACK":
        return st == "connecting"
    if kind == "PINGRESP":
        return st == "connected"
    if kind in ("SUBACK", "UNSUBACK", "PUBLISH", "PUBREL"):
        return st == "connected" and bool(prof & 1)
    if kind in ("PUBACK", "PUBREC", "PUBCOMP"):
        return st == "connected" and bool(prof & 2)
    return True


def _is_state_error(x):
    return type(x).__name__ == "MQTTStateError"


def mon_c14(w, F, vd):
    prof = w.cfg["profile"]
    phase, closed, lost, zombie = {}, set(), set(), set()
    last_phase_ev = {}
    cells = set()
    for e in w.log:
        k = e.k
        if k == "build":
            phase[e.c] = "new"
        elif k == "phase":
            phase[e.c] = e.d["new"]
            last_phase_ev[e.c] = e
        elif k in ("close", "abort"):
            closed.add(e.c)
        elif k == "lost":
            lost.add(e.c)
        elif k == "api" and e.d["op"] in API_OPS:
            c = e.c
            if c in closed and c not in lost:
                continue            # closing interval: C18 judges what is written there
            if c in zombie:
                continue            # connect() was called on a protocol whose connection is gone: no statement covers what follows
            if c in lost and e.d["op"] == "connect":
                zombie.add(c)
            r = w.reqs[e.d["rid"]]
            if getattr(r, "valid", True) is False or getattr(r, "expect", None) in ("reject", "reject_any"):
                continue
            ph = phase.get(c, "new")
            st = "idle" if (c in lost or ph in ("new", "refused")) else ph
            op = e.d["op"]
            allowed = _allowed(op, st, prof)
            cell = "%s:%s:%s:%s" % (prof, ("idle_lost" if c in lost else "idle_refused" if ph == "refused" else "idle_new" if st == "idle" else st), op,
                                    r.args.get("qos") if op == "publish" and isinstance(r.args, dict) else "")
            cells.add(cell)
            evs = _ctx_events(w, e)
            wrote = [x for x in evs if x.k == "write"]
            in_call_err = None
            if r.ret == "raised":
                in_call_err = r.exc
            elif r.ret == "deferred" and r.fires and w.log[r.fires[0][0]].ctx is e.ctx and r.fires[0][3] == "err":
                in_call_err = r.fires[0][4]
            single = w.ops_done[e.step][0] == op
            if not allowed:
                if single and not hasattr(w, "c14_forbidden"):
                    w.c14_forbidden = []
                if single:
                    w.c14_forbidden.append((e.step, r.rid))
                ok = in_call_err is not None and _is_state_error(in_call_err)
                if op == "disconnect":
                    ok = ok and r.ret == "raised"
                else:
                    ok = ok and r.ret == "deferred"
                if not ok:
                    vd.bad("C14.forbidden_honoured", "profile %d, %s: %s() was not refused with MQTTStateError (%s)" % (
                        prof, cell.split(":")[1], op, "raised %s" % type(r.exc).__name__ if r.ret == "raised" else
                        ("failed %s" % type(in_call_err).__name__ if in_call_err is not None else r.ret + (", pending" if not r.fires else ", fired ok"))))
                if wrote:
                    vd.bad("C14.forbidden_wrote", "profile %d, %s: forbidden %s() wrote %d bytes" % (
                        prof, cell.split(":")[1], op, sum(len(x.d["data"]) for x in wrote)))
                if r.state_before != r.state_after:
                    vd.bad("C14.forbidden_state_change", "forbidden %s() moved protocol.state %s -> %s" % (op, r.state_before, r.state_after))
                if any(x.k == "fire" and x.d["rid"] != r.rid for x in evs):
                    vd.bad("C14.forbidden_side_effect", "forbidden %s() fired another request's Deferred" % op)
                if single:
                    ta, tb = timers_before_after(w, F, e.step)
                    if ta != tb:
                        vd.bad("C14.forbidden_timer", "forbidden %s() changed the pending timers %s -> %s" % (op, ta[:5], tb[:5]))
            else:
                if in_call_err is not None and _is_state_error(in_call_err):
                    vd.bad("C14.allowed_refused", "profile %d, %s: %s() refused with MQTTStateError" % (prof, cell.split(":")[1], op))
                elif op == "connect" and getattr(r, "valid", True) and c not in lost:
                    if not any(fr[0] == "CONNECT" for x in wrote for fr in x.d["frames"]):
                        vd.bad("C14.allowed_no_effect", "connect() on an idle protocol wrote no CONNECT")
                elif op == "disconnect":
                    if not any(fr[0] == "DISCONNECT" for x in wrote for fr in x.d["frames"]) or not any(x.k == "close" for x in evs):
                        vd.bad("C14.allowed_no_effect", "disconnect() while connected did not write DISCONNECT and close")
                elif op == "publish" and isinstance(r.args, dict) and not r.args.get("call"):
                    ri = F.info.get(r.rid)
                    if ri is not None and not ri.accepted:
                        vd.bad("C14.allowed_no_effect", "publish() in state %s was not accepted (%s)" % (st, type(in_call_err).__name__))
        elif k == "rx":
            c = e.c
            d = e.d["desc"]
            if d[0] == "RAW":
                continue
            ph = phase.get(c, "new")
            lp = last_phase_ev.get(c)
            if d[0] == "CONNACK" and lp is not None and lp.step == e.step and e.i - 3 <= lp.i < e.i:
                ph = lp.d["old"]       # the harness moves its phase just before delivering the CONNACK that causes it
            st = "idle" if ph in ("new", "refused") else ph
            cells.add("%s:%s:rx:%s" % (prof, "idle_refused" if ph == "refused" else "idle_new" if st == "idle" else st, d[0]))
            if _belongs(d[0], st, prof):
                continue
            evs = _ctx_events(w, e)
            eff = [x for x in evs if x.k in ("write", "fire", "cb", "close", "abort", "escape") and not (
                x.k == "escape" and x.d["where"].startswith("log:"))]
            if eff:
                vd.bad("C14.stray_packet_effect", "profile %d, state %s: %s caused %s" % (prof, st, d[0], sorted(set(
                    (x.k + ":" + ",".join(fr[0] for fr in x.d["frames"])) if x.k == "write" else x.k for x in eff))))
            if w.ops_done[e.step][0] == "rx":
                ta, tb = timers_before_after(w, F, e.step)
                if ta != tb:
                    vd.bad("C14.stray_packet_timer", "profile %d, state %s: %s changed the pending timers" % (prof, st, d[0]))
                a_, b_ = F.step_end.get(e.step - 1), F.step_end.get(e.step)
                if a_ and b_ and dict(a_.d["states"]).get(c) != dict(b_.d["states"]).get(c):
                    vd.bad("C14.stray_packet_state", "profile %d: %s moved protocol.state %s -> %s" % (
                        prof, d[0], dict(a_.d["states"]).get(c), dict(b_.d["states"]).get(c)))
    for cell in cells:
        vd.label("cell:" + cell)
    suite = ("2:connected:subscribe:", "2:connected:unsubscribe:")
    vd.nontrivial = any(c not in suite for c in cells)


# ====================================================================== C20

def mon_c20(w, F, vd):
    n = 0
    for r in w.reqs:
        exp = getattr(r, "expect", None)
        if exp is None:
            continue
        api = next(e for e in w.log if e.k == "api" and e.d["rid"] == r.rid)
        name = r.kind
        if name in API_OPS:
            conn = r.conn
            ph = "idle"
            closing = False
            for x in w.log[:api.i]:
                if x.c == conn.idx:
                    if x.k == "phase":
                        ph = x.d["new"] if x.d["new"] in ("connecting", "connected") else "idle"
                    elif x.k == "lost":
                        ph = "idle"
                        closing = False
                    elif x.k in ("close", "abort"):
                        closing = True
            if closing or not _allowed(name, ph, w.cfg["profile"]) or r.state_before != ph:
                vd.label("c20:%s:outside_its_state" % name)
                continue
        n += 1
        evs = _ctx_events(w, api)
        in_call = None
        if r.ret == "raised":
            in_call = ("raised", r.exc)
        elif r.ret == "deferred" and r.fires and w.log[r.fires[0][0]].ctx is api.ctx:
            in_call = ("fired_" + r.fires[0][3], r.fires[0][4])
        setter = name in ("setWindowSize", "setTimeout", "setBandwith")
        what = "%s(%s%s)" % (name, ", ".join(repr(x)[:40] for x in r.args["args"]),
                             (", " if r.args["args"] and r.args["kwargs"] else "") + ", ".join("%s=%s" % (k, repr(v)[:40]) for k, v in sorted(r.args["kwargs"].items())))
        vd.label("c20:%s:%s" % (name, exp))
        if exp in ("reject", "reject_any"):
            ok = False
            if in_call is not None and isinstance(in_call[1], (ValueError, TypeError)):
                if setter:
                    ok = in_call[0] == "raised" and (isinstance(in_call[1], ValueError) or exp == "reject_any")
                else:
                    ok = in_call[0] == "fired_err" or (exp == "reject_any" and in_call[0] == "raised")
            if not ok and name in ("subscribe", "unsubscribe") and in_call is not None and in_call[0] == "fired_err" \
                    and type(in_call[1]).__name__ == "MQTTWindowError":
                ok = True       # the window was full as well; which refusal wins is not specified
                vd.label("c20:window_error_first")
            if not ok:
                vd.bad("C20.not_rejected", "%s in state %s: %s" % (what, r.state_before,
                       "accepted" if in_call is None or in_call[0] == "fired_ok" else "%s %s" % (in_call[0], type(in_call[1]).__name__)))
            wrote = [x for x in evs if x.k == "write"]
            if wrote:
                vd.bad("C20.rejected_but_wrote", "%s was rejected but wrote %d bytes" % (what, sum(len(x.d["data"]) for x in wrote)))
            if r.state_before != r.state_after:
                vd.bad("C20.rejected_state_change", "%s moved protocol.state %s -> %s" % (what, r.state_before, r.state_after))
            if w.ops_done[api.step][0] == "call":
                ta, tb = timers_before_after(w, F, api.step)
                if ta != tb:
                    vd.bad("C20.rejected_timer", "%s changed the pending timers %s -> %s" % (what, ta[:5], tb[:5]))
        elif exp == "accept":
            if in_call is not None and in_call[0] in ("raised", "fired_err") and isinstance(in_call[1], (ValueError, TypeError)):
                vd.bad("C20.valid_rejected", "%s in state %s: %s %s" % (what, r.state_before, in_call[0], type(in_call[1]).__name__))
            elif in_call is not None and in_call[0] == "raised":
                vd.bad("C20.valid_rejected", "%s raised %s" % (what, type(in_call[1]).__name__))
            elif not setter and name == "connect" and r.state_before == "idle":
                if not any(fr[0] == "CONNECT" for x in evs if x.k == "write" for fr in x.d["frames"]):
                    vd.bad("C20.valid_no_effect", "%s wrote no CONNECT" % what)
            elif not setter and name in ("publish", "subscribe", "unsubscribe") and in_call is not None and in_call[0] == "fired_err":
                if type(in_call[1]).__name__ not in ("MQTTWindowError",):
                    vd.bad("C20.valid_rejected", "%s failed with %s" % (what, type(in_call[1]).__name__))
    vd.nontrivial = n > 0


# ====================================================================== C16

def mon_c16(w, F, vd):
    from . import refcodec as R
    nontriv = False
    for e in F.escapes:
        wh = e.d["where"]
        if wh == "dataReceived" or wh == "connectionLost" or wh.startswith("timer:") or wh.startswith("log:"):
            vd.bad("C16.exception_escaped", "%s (%s) out of %s" % (e.d["exc"], e.d["msg"][:60], wh.split(".")[-1][:40]))
    bufs = {}
    broken = set()
    for e in w.log:
        if e.k != "rx":
            continue
        c = e.c
        if c in broken:
            continue
        data = bufs.get(c, b"") + bytes(e.d["data"])
        try:
            frames, residue = R.ref_frames(data)
        except R.Malformed:
            broken.add(c)        # a fifth length byte: the stream can never be framed again
            continue
        bufs[c] = residue
        if e.d["desc"][0] != "RAW" and len(frames) == 1 and frames[0] == bytes(e.d["data"]):
            continue             # a well-formed packet delivered on a clean boundary: other properties judge it
        ver = w.conns[c].version or R.V311
        classes = []
        for fr in frames:
            try:
                kind, f, soft = R.ref_decode(fr, R.B2C, ver)
                if any(("flag nibble" in s_) or ("trailing bytes" in s_) for s_ in soft):
                    # wrong at the level of the fixed header: reserved flag bits [MQTT-2.2.2-2], or a
                    # remaining length that a packet of this type cannot have - not a well-formed packet
                    # whatever its fields say
                    classes.append("hard")
                else:
                    classes.append("soft" if soft else "well")
            except R.Malformed:
                classes.append("hard")
        evs = _ctx_events(w, e)
        for x in evs:
            if x.k == "close" and not (x.ctx and x.ctx[0] == "api"):
                vd.bad("C16.reaction", "input %s... answered with loseConnection (only abort is expected)" % data[:8].hex())
        pending_before = any(ri.accepted and (ri.fire is None or ri.fire[0] > e.i) and not (ri.kind == "publish" and ri.qos == 0)
                             for ri in F.info.values() if ri.req.step < e.step)
        # a well-formed acknowledgement that answers no pending exchange of its own type justifies no success
        outst = e.d.get("outstanding")
        if outst is not None and len(frames) == 1 and classes == ["well"]:
            try:
                k1, f1, _ = R.ref_decode(frames[0], R.B2C, ver)
            except R.Malformed:
                k1 = None
            if k1 in ("PUBACK", "PUBREC", "PUBCOMP", "SUBACK", "UNSUBACK") and f1["id"] not in outst.get(k1, []) \
                    and not _client_awaits(F, w.conns[c].a, k1, f1["id"], e.i):
                nontriv = True
                vd.label("unasked_ack:" + k1)
                for x in evs:
                    if x.k == "fire" and x.d["out"] == "ok":
                        vd.bad("C16.unjustified_success", "%s id %d answers no pending %s exchange but completed %s #%d" % (
                            k1, f1["id"], {"PUBACK": "QoS 1", "PUBREC": "QoS 2", "PUBCOMP": "PUBREL"}.get(k1, k1), x.d["kind"], x.d["rid"]))
        if all(c_ == "hard" for c_ in classes):
            # nothing but hard-malformed frames (or no complete frame at all) became available in this delivery
            if classes:
                if pending_before:
                    nontriv = True
                vd.label("hard_malformed:type%d" % (frames[0][0] >> 4))
            else:
                vd.label("incomplete_frame")
            shown = (frames[0] if frames else data)[:12].hex()
            for x in evs:
                if x.k == "cb" and x.d["name"] == "onPublish":
                    vd.bad("C16.unjustified_delivery", "malformed frame %s... reached onPublish(%r, %d bytes)" % (
                        shown, x.d["topic"][:20], len(x.d["payload"])))
                elif x.k == "fire" and x.d["out"] == "ok":
                    vd.bad("C16.unjustified_success", "malformed frame %s... completed %s #%d" % (shown, x.d["kind"], x.d["rid"]))
                elif x.k == "write" and x.d["where"] == "wire":
                    vd.bad("C16.unjustified_write", "malformed frame %s... was answered with %s" % (
                        shown, [fr[0] for fr in x.d["frames"]]))
        else:
            vd.label("frames:" + "+".join(sorted(set(classes))))
    # unsolicited acknowledgements with requests pending
    for e in F.rx:
        if e.d["desc"][0] != "RAW" and unsolicited(e):
            nontriv = True
    # whatever arrives from one broker can never complete a request made to another
    for e in F.rx:
        a = w.conns[e.c].a
        for x in _ctx_events(w, e):
            if x.k == "fire" and x.d["out"] == "ok" and x.d["kind"] in ("publish", "subscribe", "unsubscribe") \
                    and x.d["rid"] in F.info and F.info[x.d["rid"]].a != a:
                vd.bad("C16.unjustified_success", "data from broker %d completed %s #%d, which was made to broker %d" % (
                    a, x.d["kind"], x.d["rid"], F.info[x.d["rid"]].a))
    # afterwards everything pending is settled by the ordinary loss handling (clean sessions)
    for e in w.log:
        if e.k != "lost":
            continue
        conn = w.conns[e.c]
        if conn.clean is not True:
            continue
        if len([r for r in w.reqs if r.kind == "connect" and r.conn is conn and r.ret == "deferred"]) > 1:
            continue      # a second connect() on the same transport (after a refusal the harness did not model)
        for ri in F.info.values():
            if ri.conn is conn and ri.accepted and not (ri.kind == "publish" and ri.qos == 0):
                if ri.fire is None or ri.fire[0] > _end_of_ctx(w, e):
                    vd.bad("C16.left_hanging", "%s #%d still pending after the connection was lost" % (ri.kind, ri.rid))
    vd.nontrivial = nontriv


def _client_awaits(F, a, kind, mid, ei):
    """does the client itself have an exchange open that this acknowledgement answers?  (The broker model's
    books are wrong once a raw fragment has swallowed one of its acknowledgements.)"""
    for ri in F.info.values():
        if ri.a != a or ri.msgid != mid or not ri.tx or ri.tx[0].ei > ei:
            continue
        if ri.fire is not None and ri.fire[0] < ei:
            continue
        if kind == "PUBACK" and ri.kind == "publish" and ri.qos == 1:
            return True
        if kind == "PUBREC" and ri.kind == "publish" and ri.qos == 2:
            return True
        if kind == "PUBCOMP" and ri.kind == "publish" and ri.qos == 2 and any(t.ei < ei for t in ri.rel):
            return True
        if kind == "SUBACK" and ri.kind == "subscribe":
            return True
        if kind == "UNSUBACK" and ri.kind == "unsubscribe":
            return True
    return False


def _end_of_ctx(w, e):
    evs = _ctx_events(w, e)
    return evs[-1].i if evs else e.i


# ====================================================================== C02 (live sessions): wire conformance

def mon_wire(w, F, vd):
    """every packet written during a live session is the specification's encoding of what the API call
    asked for"""
    from . import refcodec as R
    from .facts import marker_of
    ver = w.cfg.get("version", 4)
    retrans = False
    for conn in w.conns:
        for (ei, kind, f, raw, where) in conn.frames:
            if kind == "MALFORMED":
                vd.bad("C02.live.malformed", "connection %d wrote %s... : %s" % (conn.idx, bytes(raw[:10]).hex(), f))
                continue
            if f.get("_soft"):
                vd.bad("C02.live.malformed", "connection %d wrote %s %s... : %s" % (conn.idx, kind, bytes(raw[:10]).hex(), "; ".join(f["_soft"])))
                continue
            g = dict((k, v) for k, v in f.items() if k not in ("_soft", "version"))
            try:
                canon = R.ref_encode(kind, g, f.get("version", conn.version or ver))
            except Exception as x:  # noqa: BLE001
                vd.bad("C02.live.reencode", "%s: %r" % (kind, x))
                continue
            if canon != raw:
                vd.bad("C02.live.not_canonical", "%s written as %s..., the specification's encoding of its fields is %s..." % (
                    kind, bytes(raw[:12]).hex(), canon[:12].hex()))
            vd.label("live:" + kind)
    for ri in F.info.values():
        r = ri.req
        if not ri.tx or not isinstance(r.args, dict) or r.args.get("call"):
            continue
        first = ri.tx[0]
        if len(ri.tx) > 1 or len(ri.rel) > 1:
            retrans = True
        for t in ri.tx:
            f = t.f
            if ri.kind == "publish":
                if f["topic"] != r.args["topic"] or bytes(f["payload"]) != r.args["payload"] or f["qos"] != r.args["qos"] \
                        or bool(f["retain"]) != bool(r.args["retain"]):
                    vd.bad("C02.live.fields", "publish #%d (topic %r qos %r retain %r, %d payload bytes) went out as topic %r qos %r retain %r, %d bytes" % (
                        r.rid, r.args["topic"][:20], r.args["qos"], r.args["retain"], len(r.args["payload"]),
                        f["topic"][:20], f["qos"], f["retain"], len(f["payload"])))
                    break
                if f["qos"] and f["id"] != r.msgid:
                    vd.bad("C02.live.id", "publish #%d: id %r on the wire, msgId %r" % (r.rid, f["id"], r.msgid))
                    break
            elif ri.kind == "subscribe":
                if [tuple(x) for x in f["topics"]] != [tuple(x) for x in r.args["topics"]]:
                    vd.bad("C02.live.fields", "subscribe #%d asked %r, wrote %r" % (r.rid, r.args["topics"], f["topics"]))
                    break
            elif ri.kind == "unsubscribe":
                if list(f["topics"]) != list(r.args["topics"]):
                    vd.bad("C02.live.fields", "unsubscribe #%d asked %r, wrote %r" % (r.rid, r.args["topics"], f["topics"]))
                    break
            ver = w.conns[t.c].version or w.cfg.get("version", 4)
            want_dup = False if t is first else (True if ri.kind == "publish" else ver == 3)
            if bool(t.raw[0] & 0x08) != want_dup:
                vd.bad("C02.live.dup", "%s #%d: transmission %d carries DUP=%d under protocol level %d" % (
                    ri.kind, r.rid, ri.tx.index(t) + 1, bool(t.raw[0] & 0x08), ver))
                break
        for j, t in enumerate(ri.rel):
            ver = w.conns[t.c].version or w.cfg.get("version", 4)
            want_dup = (j > 0) and ver == 3
            if bool(t.raw[0] & 0x08) != want_dup:
                vd.bad("C02.live.dup", "PUBREL of publish #%d: transmission %d carries DUP=%d under protocol level %d" % (
                    r.rid, j + 1, bool(t.raw[0] & 0x08), ver))
                break
    vd.nontrivial = retrans
    if retrans:
        vd.label("live:retransmission")
