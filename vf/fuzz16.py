"""
Coverage-guided tier for C16 (thorough only): atheris/libFuzzer drives dataReceived() with byte
strings; the C16 monitor runs inside the target.

Input layout: byte 0 selects profile (3) x state (len(C16_STATES)) x version (2); the rest is a list
of frames: [n][n bytes]...  Every iteration builds a fresh world (nothing leaks between iterations).
A violation is written as a replay file and the process exits 77 (libFuzzer keeps the crashing input).

usage: python -m vf.fuzz16 <out_dir> -runs=N -seed=S [corpus_dir]
"""
import json
import os
import sys


def main():
    out_dir = sys.argv[1]
    argv = [sys.argv[0]] + sys.argv[2:]
    here = os.path.dirname(os.path.dirname(os.path.abspath(__file__)))
    sys.path.insert(0, os.path.join(here, ".deps"))
    import atheris
    with atheris.instrument_imports(include=["mqtt"]):
        from . import boot  # noqa: F401  (imports mqtt under instrumentation)
    from . import sessions
    prop = sessions.PROPS_BY_ID["C16"]
    states = sessions.C16_STATES
    from .core import case_hash
    stats = {"execs": 0, "nontrivial": [], "labels": {}}
    seen = set()

    def flush():
        os.makedirs(out_dir, exist_ok=True)
        with open(os.path.join(out_dir, "stats.json.tmp"), "w") as f:
            json.dump(stats, f)
        os.replace(os.path.join(out_dir, "stats.json.tmp"), os.path.join(out_dir, "stats.json"))

    def case_of(data):
        if not data:
            return None
        sel = data[0]
        profile = 1 + sel % 3
        si = (sel // 3) % len(states)
        version = 4 if (sel // (3 * len(states))) % 2 == 0 else 3
        cfg = dict(profile=profile, version=version, jitter=0.25, rude=True)
        ops = list(states[si][1])
        pos = 1
        n = 0
        while pos < len(data) and n < 6:
            ln = data[pos]
            fr = data[pos + 1:pos + 1 + ln]
            pos += 1 + ln
            if fr:
                ops.append(("raw", 0, bytes(fr).hex()))
                n += 1
        if n == 0:
            return None
        return (cfg, ops + sessions.C16_TAIL)

    def one(data):
        case = case_of(bytes(data))
        if case is None:
            return
        stats["execs"] += 1
        vd = prop.check_case(case)
        if vd.nontrivial:
            h = case_hash(case)
            if h not in seen:
                seen.add(h)
                stats["nontrivial"].append(h)
        for lb in vd.labels:
            stats["labels"][lb] = stats["labels"].get(lb, 0) + 1
        if vd.viols:
            os.makedirs(out_dir, exist_ok=True)
            path = os.path.join(out_dir, "fuzz-%s.json" % vd.viols[0].rule.replace(".", "_"))
            with open(path, "w") as f:
                json.dump({"property": "C16", "rule": vd.viols[0].rule, "witness": vd.viols[0].witness,
                           "case": prop.case_to_json(case)}, f)
            flush()
            os._exit(77)
        if stats["execs"] % 2000 == 0:
            flush()

    import atexit  # noqa: F401
    flush()
    atheris.Setup(argv, one)
    atheris.Fuzz()          # does not return (libFuzzer exits the process); stats are flushed every 2000 executions


if __name__ == "__main__":
    main()
