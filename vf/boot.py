"""
Process bootstrap for every check: virtual reactor, deterministic jitter, and the
working tree of $VERIF_REPO (default /repo) first on sys.path.

Must be imported before anything imports `twisted.internet.reactor` or `mqtt`.
"""
import os
import sys

REPO = os.environ.get("VERIF_REPO", "/repo")
SRC = os.path.join(REPO, "src")
VERIF = os.path.dirname(os.path.dirname(os.path.abspath(__file__)))
DEPS = os.path.join(VERIF, ".deps")

# the tree under test first, whatever is installed
if SRC in sys.path:
    sys.path.remove(SRC)
sys.path.insert(0, SRC)
if os.path.isdir(DEPS) and DEPS not in sys.path:
    sys.path.append(DEPS)
sys.dont_write_bytecode = True

import random as _random  # noqa: E402


class _Jitter(object):
    """Replacement for the stdlib random functions the library uses for back-off jitter.

    The value is a per-case constant chosen by the case generator, so that every run is a pure
    function of (tree, case)."""
    value = 0.25

    def random(self):
        return self.value

    def uniform(self, a, b):
        return a + (b - a) * self.value

    def randint(self, a, b):
        return a + int((b - a) * self.value)

    def randrange(self, a, b=None, step=1):
        if b is None:
            a, b = 0, a
        return a + int((b - 1 - a) * self.value)


JITTER = _Jitter()
_random.random = JITTER.random
_random.uniform = JITTER.uniform
_random.randint = JITTER.randint
_random.randrange = JITTER.randrange

from twisted.internet import task  # noqa: E402
from twisted.internet import main as _main  # noqa: E402


class ProxyReactor(object):
    """The global reactor of a check process: time is a task.Clock owned by the harness.

    Every callLater is wrapped so that the executor sees each timer firing (begin/end, name,
    exception) -- the real reactor would log an exception and carry on; we record it."""

    READ_LATE = 2.0 ** -30

    def __init__(self):
        self.clock = task.Clock()
        self.sink = None  # object with .timer_begin(name) / .timer_end() / .escape(where, exc)
        self.running = False
        self.in_pass = False   # set by the harness while it runs delayed calls

    # --- harness side
    def reset(self, sink=None):
        self.clock = task.Clock()
        self.sink = sink
        self.in_pass = False

    # --- IReactorTime
    def seconds(self):
        # A reactor never runs a delayed call exactly on time: code that *reads* the clock inside one
        # (LoopingCall computing "time until the next interval") sees it a little past the call's due time;
        # read exactly on time, that computation can round to a few ulps and fire twice in a row.  Only the
        # reading is late: new calls are scheduled from the due time, so that no offset accumulates and
        # the timers of one connection never depend on which other timers happened to run.
        t = self.clock.seconds()
        return t + self.READ_LATE if self.in_pass else t

    def callLater(self, delay, f, *a, **kw):
        sink = self.sink
        name = getattr(f, "__qualname__", None) or getattr(f, "__name__", None) or repr(f)

        def fired(*aa, **kk):
            if sink is not None:
                sink.timer_begin(name)
            try:
                return f(*aa, **kk)
            except Exception as e:  # noqa: BLE001 - what a reactor does: log and go on
                if type(e).__name__ == "CaseTooBig":
                    raise
                if sink is not None:
                    sink.escape("timer:" + name, e)
                else:
                    raise
            finally:
                if sink is not None:
                    sink.timer_end()
        fired.__qualname__ = name
        fired.__name__ = name
        return self.clock.callLater(delay, fired, *a, **kw)

    def getDelayedCalls(self):
        return self.clock.getDelayedCalls()

    # --- things a library might touch on a reactor; inert here
    def callFromThread(self, f, *a, **kw):
        f(*a, **kw)

    def callWhenRunning(self, f, *a, **kw):
        f(*a, **kw)

    def addSystemEventTrigger(self, *a, **kw):
        return None

    def removeSystemEventTrigger(self, *a, **kw):
        return None

    def connectTCP(self, *a, **kw):
        raise RuntimeError("no network in the harness")

    def run(self, *a, **kw):
        raise RuntimeError("the harness owns time")

    def stop(self):
        pass


REACTOR = ProxyReactor()
_main.installReactor(REACTOR)

from twisted.logger import globalLogPublisher  # noqa: E402


class _LogTap(object):
    """Records every log event carrying a failure ('Unhandled error in Deferred', LoopingCall
    failures ...)."""

    def __init__(self):
        self.sink = None

    def __call__(self, event):
        if self.sink is None:
            return
        f = event.get("log_failure")
        if f is not None:
            self.sink.escape("log:" + str(event.get("log_format", ""))[:40], f.value)


LOGTAP = _LogTap()
try:
    from twisted.logger import globalLogBeginner
    globalLogBeginner.beginLoggingTo([LOGTAP], redirectStandardIO=False, discardBuffer=True)
except Exception:  # noqa: BLE001
    globalLogPublisher.addObserver(LOGTAP)

import mqtt  # noqa: E402
from mqtt import v31, v311  # noqa: E402,F401
from mqtt import pdu as libpdu  # noqa: E402,F401
from mqtt import error as liberror  # noqa: E402,F401

if not os.path.abspath(mqtt.__file__).startswith(os.path.abspath(SRC)):
    sys.stderr.write("HARNESS-ERROR mqtt imported from %s, not %s\n" % (mqtt.__file__, SRC))
    sys.exit(2)

from mqtt.client.factory import MQTTFactory  # noqa: E402,F401
from mqtt.client import base as libbase  # noqa: E402,F401
from mqtt.client import pubsubs as libpubsubs  # noqa: E402,F401
from mqtt.client.pubsubs import MQTTSessionCleared  # noqa: E402,F401
from mqtt.error import (MQTTStateError, MQTTWindowError, MQTTTimeoutError)  # noqa: E402,F401

if libbase.MQTTBaseProtocol.callLater.__self__ is not REACTOR:
    sys.stderr.write("HARNESS-ERROR callLater seam not bound to the proxy reactor\n")
    sys.exit(2)
