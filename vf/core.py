"""
Runner infrastructure shared by all properties: tiers, 16-way sharding, Hypothesis driving,
collect-classify-shrink, known findings, replay files, evidence.
"""
import hashlib
import json
import os
import re
import sys
import time
import traceback
import multiprocessing
from collections import Counter

VERIF = os.path.dirname(os.path.dirname(os.path.abspath(__file__)))
NPROC = int(os.environ.get("VERIF_NPROC", "16"))


def case_hash(case):
    return int.from_bytes(hashlib.blake2b(repr(case).encode("utf-8", "replace"), digest_size=8).digest(), "big")


def jsonable(x):
    if isinstance(x, (bytes, bytearray)):
        return {"hex": bytes(x[:4096]).hex(), "len": len(x)} if len(x) > 64 else {"hex": bytes(x).hex()}
    if isinstance(x, dict):
        return dict((str(k), jsonable(v)) for k, v in x.items())
    if isinstance(x, (list, tuple, set, frozenset)):
        return [jsonable(v) for v in x]
    if isinstance(x, (int, float, str, bool)) or x is None:
        return x
    return repr(x)[:200]


class Viol(object):
    """one violation record: rule (root-cause bucket) + witness (what exactly failed)"""
    __slots__ = ("rule", "witness")

    def __init__(self, rule, witness):
        self.rule, self.witness = rule, str(witness)

    def __repr__(self):
        return "%s: %s" % (self.rule, self.witness)


class Verdict(object):
    __slots__ = ("viols", "nontrivial", "labels")

    def __init__(self):
        self.viols, self.nontrivial, self.labels = [], False, []

    def bad(self, rule, witness):
        self.viols.append(Viol(rule, witness))

    def label(self, *ls):
        self.labels.extend(ls)


class ShardResult(object):
    def __init__(self):
        self.evals = 0
        self.nontriv = set()
        self.labels = Counter()
        self.viols = []          # (rule, witness, case)
        self.samples = []
        self.tiers = Counter()
        self.exhaustive = {}
        self.errors = []
        self.inconclusive = 0

    def merge(self, o):
        self.evals += o.evals
        self.nontriv |= o.nontriv
        self.labels.update(o.labels)
        have = Counter(v[0] for v in self.viols)
        for v in o.viols:
            if have[v[0]] < 5:
                self.viols.append(v)
                have[v[0]] += 1
        for s in o.samples:
            if len(self.samples) < 6:
                self.samples.append(s)
        self.tiers.update(o.tiers)
        self.exhaustive.update(o.exhaustive)
        self.errors.extend(o.errors)
        self.inconclusive += o.inconclusive

    def add(self, tier, case, verdict, keep_sample=True):
        self.evals += 1
        self.tiers[tier] += 1
        if verdict.nontrivial:
            self.nontriv.add(case_hash(case))
            if keep_sample and len(self.samples) < 2:
                self.samples.append(case)
        for lb in verdict.labels:
            self.labels[lb] += 1
        if verdict.viols:
            have = Counter(v[0] for v in self.viols)
            seen = set()
            for v in verdict.viols:
                if v.rule in seen:
                    continue
                seen.add(v.rule)
                if have[v.rule] < 3:
                    self.viols.append((v.rule, v.witness, case))


class Prop(object):
    """Interface of one property's check."""
    id = None
    rule = ""
    assumptions = []

    def shards(self, tier, seed):
        """-> list of picklable shard specs"""
        raise NotImplementedError

    def run_shard(self, spec):
        """-> ShardResult"""
        raise NotImplementedError

    def check_case(self, case):
        """-> Verdict (used by replay and by the shrinker)"""
        raise NotImplementedError

    def shrink(self, case, rule):
        return case

    def case_to_json(self, case):
        return jsonable(case)

    def case_from_json(self, j):
        return j


# ------------------------------------------------------------------ known findings

def load_known():
    p = os.path.join(VERIF, "known_findings.json")
    if not os.path.exists(p):
        return []
    with open(p) as f:
        return json.load(f).get("findings", [])


def match_known(known, pid, rule, witness):
    for k in known:
        if k.get("status") != "open" or k.get("property") != pid:
            continue
        if k.get("rule") != rule:
            continue
        if re.search(k.get("witness_pattern", ""), witness):
            return k
    return None


# ------------------------------------------------------------------ generic ddmin over a list

def ddmin(items, still_fails, budget=1500):
    """classic delta debugging; `still_fails(list)` -> bool.  Bounded by `budget` evaluations."""
    n = 2
    items = list(items)
    evals = [0]
    t_end = time.time() + float(os.environ.get("VERIF_SHRINK_SECONDS", "40"))

    def test(x):
        evals[0] += 1
        if time.time() > t_end:
            evals[0] = budget
            return False
        try:
            return still_fails(x)
        except Exception:  # noqa: BLE001
            return False
    while len(items) >= 2 and evals[0] < budget:
        chunk = max(1, len(items) // n)
        reduced = False
        for i in range(0, len(items), chunk):
            cand = items[:i] + items[i + chunk:]
            if cand and test(cand):
                items = cand
                n = max(n - 1, 2)
                reduced = True
                break
            if evals[0] >= budget:
                break
        if not reduced:
            if chunk == 1:
                break
            n = min(n * 2, len(items))
    # single deletions to a fixpoint
    changed = True
    while changed and evals[0] < budget:
        changed = False
        for i in range(len(items) - 1, -1, -1):
            cand = items[:i] + items[i + 1:]
            if test(cand):
                items = cand
                changed = True
            if evals[0] >= budget:
                break
    return items


# ------------------------------------------------------------------ pool plumbing

_PROPS = None


def _get_prop(pid):
    from . import registry
    return registry.get(pid)


def _work(arg):
    pid, spec = arg
    try:
        prop = _get_prop(pid)
        return prop.run_shard(spec)
    except Exception:  # noqa: BLE001
        r = ShardResult()
        r.errors.append("shard %r: %s" % (spec if len(repr(spec)) < 200 else repr(spec)[:200],
                                          traceback.format_exc()))
        return r


def write_evidence(pid, tier, seed, level, coverage, assumptions, wall, nviol):
    evdir = os.environ.get("VERIF_EVIDENCE_DIR") or os.path.join(VERIF, "evidence")
    os.makedirs(evdir, exist_ok=True)
    ev = {
        "property_id": pid, "tier": tier, "seed": seed, "level": level,
        "coverage": coverage, "assumptions": assumptions, "wall_s": round(wall, 3),
        "violations": nviol,
    }
    p = os.path.join(evdir, "%s.json" % pid)
    with open(p + ".tmp", "w") as f:
        json.dump(ev, f, indent=1, sort_keys=True, default=lambda o: repr(o)[:200])
    os.replace(p + ".tmp", p)


def replay_files(pid):
    d = os.path.join(VERIF, "replays", pid)
    out = []
    if os.path.isdir(d):
        for n in sorted(os.listdir(d)):
            if n.endswith(".json"):
                out.append(os.path.join(d, n))
    return out


def run_property(pid, tier, seed, replay=None):
    t0 = time.time()
    prop = _get_prop(pid)
    known = load_known()
    total = ShardResult()

    if replay:
        with open(replay) as f:
            j = json.load(f)
        case = prop.case_from_json(j["case"])
        v = prop.check_case(case)
        for x in v.viols:
            print("  %s" % (x,))
        if v.viols:
            print("VIOLATION property=%s replay=%s" % (pid, replay))
            return 1
        print("replay %s: property held" % replay)
        return 0

    # --- replay tier (serial, seconds)
    # (VERIF_NO_REPLAYS=1 skips it: used only to measure what the generators find on their own)
    for path in ([] if os.environ.get("VERIF_NO_REPLAYS") else replay_files(pid)):
        with open(path) as f:
            j = json.load(f)
        case = prop.case_from_json(j["case"])
        v = prop.check_case(case)
        total.add("replay", case, v, keep_sample=False)
    # --- sharded tiers
    specs = prop.shards(tier, seed)
    if specs:
        if NPROC > 1 and len(specs) > 1:
            ctx = multiprocessing.get_context("fork")
            with ctx.Pool(min(NPROC, len(specs))) as pool:
                for r in pool.imap_unordered(_work, [(pid, s) for s in specs], chunksize=1):
                    total.merge(r)
        else:
            for s in specs:
                total.merge(_work((pid, s)))

    if total.errors:
        for e in total.errors[:3]:
            sys.stderr.write("HARNESS-ERROR %s\n" % e)
        return 2

    # --- classify
    fresh = {}
    known_hit = {}
    for rule, witness, case in total.viols:
        k = match_known(known, pid, rule, witness)
        if k is not None:
            known_hit.setdefault(k["id"], (k, 0))
            known_hit[k["id"]] = (k, known_hit[k["id"]][1] + 1)
        elif rule not in fresh:
            fresh[rule] = (witness, case)
    for kid, (k, n) in sorted(known_hit.items()):
        print("KNOWN-FINDING: property=%s %s" % (pid, k["description"]))

    # --- shrink + replay files for new violations
    out_lines = []
    for rule, (witness, case) in sorted(fresh.items()):
        try:
            small = prop.shrink(case, rule)
        except Exception:  # noqa: BLE001
            small = case
        v = prop.check_case(small)
        ws = [x.witness for x in v.viols if x.rule == rule]
        d = os.path.join(VERIF, "replays", "found")
        os.makedirs(d, exist_ok=True)
        h = "%016x" % case_hash((rule, small))
        path = os.path.join(d, "%s-%s-%s.json" % (pid, re.sub(r"[^A-Za-z0-9_.]", "_", rule), h[:10]))
        with open(path, "w") as f:
            json.dump({"property": pid, "rule": rule, "witness": ws[0] if ws else witness,
                       "case": prop.case_to_json(small)}, f, indent=1, default=lambda o: repr(o)[:200])
        print("  rule=%s witness=%s" % (rule, (ws[0] if ws else witness)[:300]))
        out_lines.append("VIOLATION property=%s replay=%s" % (pid, os.path.relpath(path, VERIF)))

    wall = time.time() - t0
    cov = {
        "evaluations": total.evals,
        "distinct_nontrivial": len(total.nontriv),
        "rule": prop.rule,
        "samples": [prop.case_to_json(s) for s in total.samples[:4]],
        "per_tier": dict(total.tiers),
        "labels": dict(sorted(total.labels.items())),
        "known_findings_hit": dict((kid, n) for kid, (k, n) in known_hit.items()),
        "inconclusive": total.inconclusive,
    }
    if total.exhaustive:
        cov["exhaustive_subspaces"] = total.exhaustive
    write_evidence(pid, tier, seed, "exploration", cov, prop.assumptions, wall, len(fresh))
    print("%s tier=%s seed=%d evaluations=%d distinct_nontrivial=%d violations=%d wall=%.1fs" % (
        pid, tier, seed, total.evals, len(total.nontriv), len(fresh), wall))
    for ln in out_lines:
        print(ln)
    return 1 if fresh else 0
