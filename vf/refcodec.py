"""
Reference MQTT 3.1 / 3.1.1 codec, written from the OASIS MQTT 3.1.1 text (section 2: fixed
header, remaining length; sections 3.1 - 3.14: one grammar per control packet) and the MQTT 3.1
specification for the differences (protocol name "MQIsdp", level 3, DUP on re-delivered
PUBREL/SUBSCRIBE/UNSUBSCRIBE).

It shares no code, tables or structure with mqtt/pdu.py.  Packets are (kind, fields) with
`fields` a plain dict:

  CONNECT      client_id, keepalive, clean, will_topic, will_message(bytes), will_qos,
               will_retain, username, password(bytes)          (absent optional = None)
  CONNACK      session_present(bool), code
  PUBLISH      topic, payload(bytes), qos, dup, retain, id (None at QoS 0)
  PUBACK/PUBREC/PUBCOMP/UNSUBACK   id
  PUBREL       id, dup
  SUBSCRIBE    id, topics [(topic, qos)], dup
  SUBACK       id, codes [byte]
  UNSUBSCRIBE  id, topics [topic], dup
  PINGREQ / PINGRESP / DISCONNECT   {}
"""
import struct

V311 = 4
V31 = 3

C2B = "c2b"   # client to broker
B2C = "b2c"   # broker to client

# spec table 2.1 / 2.2: type number, name, who may send it
_TYPES = {
    1: ("CONNECT", (C2B,)),
    2: ("CONNACK", (B2C,)),
    3: ("PUBLISH", (C2B, B2C)),
    4: ("PUBACK", (C2B, B2C)),
    5: ("PUBREC", (C2B, B2C)),
    6: ("PUBREL", (C2B, B2C)),
    7: ("PUBCOMP", (C2B, B2C)),
    8: ("SUBSCRIBE", (C2B,)),
    9: ("SUBACK", (B2C,)),
    10: ("UNSUBSCRIBE", (C2B,)),
    11: ("UNSUBACK", (B2C,)),
    12: ("PINGREQ", (C2B,)),
    13: ("PINGRESP", (B2C,)),
    14: ("DISCONNECT", (C2B,)),
}
_NUM = dict((v[0], k) for k, v in _TYPES.items())
# kinds whose fixed-header flag nibble is "reserved 0010" in 3.1.1 (QoS 1 in 3.1, DUP allowed)
_QOS1_KINDS = ("PUBREL", "SUBSCRIBE", "UNSUBSCRIBE")

MAX_REMAINING = 268435455


class Malformed(Exception):
    """severity 'hard': truncated/overrunning/undecodable or a packet the peer must never send;
    'soft': complete mandatory fields but a reserved bit / trailing byte / out-of-range value
    that lenient parsers accept."""

    def __init__(self, reason, severity="hard"):
        Exception.__init__(self, reason)
        self.reason = reason
        self.severity = severity


class Unrepresentable(Exception):
    pass


# ------------------------------------------------------------------ primitives

def enc_varint(n):
    if not (0 <= n <= MAX_REMAINING):
        raise Unrepresentable("remaining length %r" % (n,))
    out = []
    while True:
        d, n = n & 0x7F, n >> 7
        out.append(d | (0x80 if n else 0))
        if not n:
            return bytes(out)


def dec_varint(buf, pos=0):
    """-> (value, next_pos) or None if incomplete; raises Malformed on a 5th length byte."""
    val = 0
    for k in range(4):
        if pos + k >= len(buf):
            return None
        b = buf[pos + k]
        val |= (b & 0x7F) << (7 * k)
        if not b & 0x80:
            return val, pos + k + 1
    raise Malformed("remaining length longer than 4 bytes")


def enc_u16(n):
    if not isinstance(n, int) or isinstance(n, bool) or not (0 <= n <= 0xFFFF):
        raise Unrepresentable("16-bit value %r" % (n,))
    return struct.pack(">H", n)


def enc_bin(b):
    b = bytes(b)
    if len(b) > 0xFFFF:
        raise Unrepresentable("binary field of %d bytes" % len(b))
    return struct.pack(">H", len(b)) + b


def enc_str(s):
    if not isinstance(s, str):
        raise Unrepresentable("string %r" % (type(s),))
    try:
        return enc_bin(s.encode("utf-8"))
    except UnicodeEncodeError:
        raise Unrepresentable("surrogate in string")


def as_bytes(p):
    """Application payload / password / will message as the bytes that go on the wire."""
    if isinstance(p, str):
        return p.encode("utf-8")
    if isinstance(p, (bytes, bytearray)):
        return bytes(p)
    raise Unrepresentable("payload type %r" % (type(p),))


class _Reader(object):
    def __init__(self, body):
        self.b = body
        self.p = 0
        self.soft = []

    def left(self):
        return len(self.b) - self.p

    def u8(self, what):
        if self.left() < 1:
            raise Malformed("truncated %s" % what)
        v = self.b[self.p]
        self.p += 1
        return v

    def u16(self, what):
        if self.left() < 2:
            raise Malformed("truncated %s" % what)
        v = struct.unpack_from(">H", self.b, self.p)[0]
        self.p += 2
        return v

    def bin(self, what):
        n = self.u16(what + " length")
        if self.left() < n:
            raise Malformed("%s overruns the packet" % what)
        v = bytes(self.b[self.p:self.p + n])
        self.p += n
        return v

    def str(self, what):
        raw = self.bin(what)
        try:
            s = raw.decode("utf-8")   # strict: rejects surrogates, overlong forms, > U+10FFFF
        except UnicodeDecodeError:
            raise Malformed("%s is not UTF-8" % what)
        if "\x00" in s:
            self.soft.append("U+0000 in %s" % what)
        return s

    def rest(self):
        v = bytes(self.b[self.p:])
        self.p = len(self.b)
        return v

    def end(self, what):
        if self.left():
            self.soft.append("%d trailing bytes after %s" % (self.left(), what))


# ------------------------------------------------------------------ encoder

def _frame(kind, flags, body):
    return bytes([(_NUM[kind] << 4) | flags]) + enc_varint(len(body)) + body


def ref_encode(kind, f, version=V311):
    """Bytes the specification prescribes for (kind, fields).  Raises Unrepresentable."""
    if kind == "CONNECT":
        name, level = ("MQTT", 4) if version == V311 else ("MQIsdp", 3)
        flags = 0
        payload = enc_str(f["client_id"])
        if f.get("clean"):
            flags |= 0x02
        if f.get("will_topic") is not None:
            flags |= 0x04 | ((f.get("will_qos") or 0) << 3) | (0x20 if f.get("will_retain") else 0)
            payload += enc_str(f["will_topic"]) + enc_bin(as_bytes(f["will_message"]))
        if f.get("username") is not None:
            flags |= 0x80
            payload += enc_str(f["username"])
        if f.get("password") is not None:
            flags |= 0x40
            payload += enc_bin(as_bytes(f["password"]))
        body = enc_str(name) + bytes([level, flags]) + enc_u16(f["keepalive"]) + payload
        return _frame(kind, 0, body)
    if kind == "CONNACK":
        return _frame(kind, 0, bytes([1 if f["session_present"] else 0, f["code"]]))
    if kind == "PUBLISH":
        qos = f["qos"]
        if qos not in (0, 1, 2):
            raise Unrepresentable("qos %r" % (qos,))
        flags = (0x08 if f.get("dup") else 0) | (qos << 1) | (1 if f.get("retain") else 0)
        body = enc_str(f["topic"])
        if qos:
            body += enc_u16(f["id"])
        body += as_bytes(f["payload"])
        return _frame(kind, flags, body)
    if kind in ("PUBACK", "PUBREC", "PUBCOMP", "UNSUBACK"):
        return _frame(kind, 0, enc_u16(f["id"]))
    if kind == "PUBREL":
        flags = 0x02 | (0x08 if (f.get("dup") and version == V31) else 0)
        return _frame(kind, flags, enc_u16(f["id"]))
    if kind == "SUBSCRIBE":
        flags = 0x02 | (0x08 if (f.get("dup") and version == V31) else 0)
        body = enc_u16(f["id"])
        for (t, q) in f["topics"]:
            if q not in (0, 1, 2):
                raise Unrepresentable("qos %r" % (q,))
            body += enc_str(t) + bytes([q])
        return _frame(kind, flags, body)
    if kind == "SUBACK":
        return _frame(kind, 0, enc_u16(f["id"]) + bytes(f["codes"]))
    if kind == "UNSUBSCRIBE":
        flags = 0x02 | (0x08 if (f.get("dup") and version == V31) else 0)
        body = enc_u16(f["id"])
        for t in f["topics"]:
            body += enc_str(t)
        return _frame(kind, flags, body)
    if kind in ("PINGREQ", "PINGRESP", "DISCONNECT"):
        return _frame(kind, 0, b"")
    raise ValueError(kind)


# ------------------------------------------------------------------ framing

def ref_frames(stream):
    """Split a byte stream into complete frames. -> (frames, residue).  A fifth length byte
    raises Malformed."""
    frames = []
    pos = 0
    n = len(stream)
    while pos < n:
        if n - pos < 2:
            break
        r = dec_varint(stream, pos + 1)
        if r is None:
            break
        length, body_at = r
        if n - body_at < length:
            break
        frames.append(bytes(stream[pos:body_at + length]))
        pos = body_at + length
    return frames, bytes(stream[pos:])


# ------------------------------------------------------------------ strict decoder

def ref_decode(frame, direction, version=V311):
    """Decode one complete frame.  -> (kind, fields, soft_deviations).
    Raises Malformed(severity='hard') if the frame cannot be given a meaning."""
    frame = bytes(frame)
    if len(frame) < 2:
        raise Malformed("shorter than a fixed header")
    r = dec_varint(frame, 1)
    if r is None:
        raise Malformed("incomplete remaining length")
    length, at = r
    if len(frame) - at != length:
        raise Malformed("remaining length %d but %d bytes follow" % (length, len(frame) - at))
    tnum, flags = frame[0] >> 4, frame[0] & 0x0F
    if tnum not in _TYPES:
        raise Malformed("reserved packet type %d" % tnum)
    kind, who = _TYPES[tnum]
    if direction not in who:
        raise Malformed("%s is never sent %s" % (kind, direction))
    rd = _Reader(frame[at:])
    soft = rd.soft
    f = {}
    if kind == "PUBLISH":
        f["dup"] = bool(flags & 0x08)
        f["qos"] = (flags >> 1) & 3
        f["retain"] = bool(flags & 1)
        if f["qos"] == 3:
            raise Malformed("PUBLISH with QoS 3")
        f["topic"] = rd.str("topic")
        if f["qos"]:
            f["id"] = rd.u16("packet id")
            if f["id"] == 0:
                soft.append("packet id 0")
        else:
            f["id"] = None
            if f["dup"]:
                soft.append("DUP on QoS 0")
        f["payload"] = rd.rest()
        if f["topic"] == "":
            soft.append("empty topic")
        if "#" in f["topic"] or "+" in f["topic"]:
            soft.append("wildcard in topic name")
        return kind, f, soft
    # every other kind has a prescribed flag nibble
    if kind in _QOS1_KINDS:
        if version == V31:
            f["dup"] = bool(flags & 0x08)
            if flags & 0x07 != 0x02:
                soft.append("flag nibble %x" % flags)
        else:
            f["dup"] = False
            if flags != 0x02:
                soft.append("flag nibble %x" % flags)
                f["dup"] = bool(flags & 0x08)
    elif flags != 0:
        soft.append("flag nibble %x" % flags)
    if kind == "CONNECT":
        name = rd.str("protocol name")
        level = rd.u8("protocol level")
        if (name, level) not in (("MQTT", 4), ("MQIsdp", 3)):
            raise Malformed("protocol %r level %d" % (name, level))
        f["version"] = level
        cf = rd.u8("connect flags")
        if cf & 1:
            soft.append("reserved connect flag set")
        f["clean"] = bool(cf & 2)
        f["keepalive"] = rd.u16("keepalive")
        f["client_id"] = rd.str("client id")
        f["will_topic"] = f["will_message"] = f["will_qos"] = f["will_retain"] = None
        f["username"] = f["password"] = None
        if cf & 4:
            f["will_qos"] = (cf >> 3) & 3
            if f["will_qos"] == 3:
                raise Malformed("will QoS 3")
            f["will_retain"] = bool(cf & 0x20)
            f["will_topic"] = rd.str("will topic")
            f["will_message"] = rd.bin("will message")
        elif cf & 0x38:
            soft.append("will qos/retain without will flag")
        if cf & 0x80:
            f["username"] = rd.str("user name")
        if cf & 0x40:
            if not cf & 0x80 and level == 4:
                soft.append("password without user name")
            f["password"] = rd.bin("password")
        rd.end("CONNECT payload")
    elif kind == "CONNACK":
        a = rd.u8("connack flags")
        f["session_present"] = bool(a & 1)
        if a & 0xFE:
            soft.append("reserved connack flags")
        f["code"] = rd.u8("return code")
        if f["code"] > 5:
            soft.append("reserved return code")
        rd.end("CONNACK")
    elif kind in ("PUBACK", "PUBREC", "PUBREL", "PUBCOMP", "UNSUBACK"):
        f["id"] = rd.u16("packet id")
        if f["id"] == 0:
            soft.append("packet id 0")
        rd.end(kind)
    elif kind == "SUBSCRIBE":
        f["id"] = rd.u16("packet id")
        if f["id"] == 0:
            soft.append("packet id 0")
        f["topics"] = []
        while rd.left():
            t = rd.str("topic filter")
            q = rd.u8("requested qos")
            if q > 2:
                raise Malformed("requested QoS %d" % q)
            f["topics"].append((t, q))
        if not f["topics"]:
            raise Malformed("SUBSCRIBE without topic filter")
    elif kind == "UNSUBSCRIBE":
        f["id"] = rd.u16("packet id")
        if f["id"] == 0:
            soft.append("packet id 0")
        f["topics"] = []
        while rd.left():
            f["topics"].append(rd.str("topic filter"))
        if not f["topics"]:
            raise Malformed("UNSUBSCRIBE without topic filter")
    elif kind == "SUBACK":
        f["id"] = rd.u16("packet id")
        if f["id"] == 0:
            soft.append("packet id 0")
        f["codes"] = list(rd.rest())
        if not f["codes"]:
            soft.append("SUBACK without return codes")
        if any(c not in (0, 1, 2, 0x80) for c in f["codes"]):
            soft.append("reserved SUBACK return code")
    else:  # PINGREQ PINGRESP DISCONNECT
        rd.end(kind)
    return kind, f, soft


def ref_decode_strict(frame, direction, version=V311):
    """As ref_decode but any soft deviation is an error too."""
    kind, f, soft = ref_decode(frame, direction, version)
    if soft:
        raise Malformed("; ".join(soft), "soft")
    return kind, f


# ------------------------------------------------------------------ self test

def selftest():
    # OASIS 3.1.1 examples: remaining length table 2.4 boundaries
    assert enc_varint(0) == b"\x00" and enc_varint(127) == b"\x7f"
    assert enc_varint(128) == b"\x80\x01" and enc_varint(16383) == b"\xff\x7f"
    assert enc_varint(16384) == b"\x80\x80\x01" and enc_varint(2097151) == b"\xff\xff\x7f"
    assert enc_varint(2097152) == b"\x80\x80\x80\x01"
    assert enc_varint(268435455) == b"\xff\xff\xff\x7f"
    # figure 1.1 style string: "A\U0002A6D4" = 00 05 41 F0 AA 9B 94
    assert enc_str("A\U0002A6D4") == b"\x00\x05A\xf0\xaa\x9b\x94"
    # 3.1.2 CONNECT variable header example (MQTT, level 4, keepalive 10) with flags
    pkt = ref_encode("CONNECT", dict(client_id="c", keepalive=10, clean=True), V311)
    assert pkt == b"\x10\x0d\x00\x04MQTT\x04\x02\x00\x0a\x00\x01c", pkt
    pkt = ref_encode("CONNECT", dict(client_id="c", keepalive=10, clean=True), V31)
    assert pkt == b"\x10\x0f\x00\x06MQIsdp\x03\x02\x00\x0a\x00\x01c", pkt
    # 3.3.2 PUBLISH example: topic a/b, id 10
    pkt = ref_encode("PUBLISH", dict(topic="a/b", id=10, qos=1, payload=b"x"))
    assert pkt == b"\x32\x08\x00\x03a/b\x00\x0ax", pkt
    # 3.8.3 SUBSCRIBE example payload: a/b qos1, c/d qos2
    pkt = ref_encode("SUBSCRIBE", dict(id=10, topics=[("a/b", 1), ("c/d", 2)]))
    assert pkt == b"\x82\x0e\x00\x0a\x00\x03a/b\x01\x00\x03c/d\x02", pkt
    assert ref_encode("PUBREL", dict(id=1)) == b"\x62\x02\x00\x01"
    assert ref_encode("PUBCOMP", dict(id=1)) == b"\x70\x02\x00\x01"
    assert ref_encode("PINGREQ", {}) == b"\xc0\x00" and ref_encode("DISCONNECT", {}) == b"\xe0\x00"
    assert ref_encode("UNSUBSCRIBE", dict(id=2, topics=["a"])) == b"\xa2\x05\x00\x02\x00\x01a"
    assert ref_encode("SUBACK", dict(id=2, codes=[0, 0x80])) == b"\x90\x04\x00\x02\x00\x80"
    # self round trip
    samples = [
        ("CONNECT", dict(client_id="idé", keepalive=65535, clean=False, will_topic="w",
                         will_message=b"m", will_qos=2, will_retain=True, username="u",
                         password=b"p\xc3\xb1"), C2B),
        ("PUBLISH", dict(topic="t", payload=b"", qos=0, dup=False, retain=True, id=None), B2C),
        ("PUBLISH", dict(topic="t\U0001F600", payload=b"z" * 200, qos=2, dup=True, retain=False,
                         id=65535), C2B),
        ("SUBSCRIBE", dict(id=7, topics=[("a", 0), ("b/#", 2)], dup=False), C2B),
        ("UNSUBSCRIBE", dict(id=7, topics=["a", "b"], dup=False), C2B),
        ("SUBACK", dict(id=7, codes=[0, 1, 2, 0x80]), B2C),
        ("CONNACK", dict(session_present=True, code=0), B2C),
        ("PUBREL", dict(id=9, dup=False), B2C),
    ]
    for kind, f, d in samples:
        for v in (V311, V31):
            k2, f2 = ref_decode_strict(ref_encode(kind, f, v), d, v)
            f2.pop("version", None)
            assert k2 == kind and f2 == f, (kind, f, f2)
    fr, res = ref_frames(b"\xc0\x00\x40\x02\x00\x01\x30")
    assert fr == [b"\xc0\x00", b"\x40\x02\x00\x01"] and res == b"\x30"
    for bad in (b"\x30\x04\x00\x10ab", b"\x20\x01\x00", b"\x00\x00", b"\xf0\x00", b"\x36\x03\x00\x01a"):
        try:
            ref_decode(bad, B2C)
        except Malformed as e:
            assert e.severity == "hard"
        else:
            raise AssertionError(bad)
    return True


if __name__ == "__main__":
    selftest()
    print("refcodec selftest ok")
