#!/venv/bin/python
"""dump the observation log of a replay file: tools/show.py <replay.json> [ID]"""
import sys, os, json
sys.path.insert(0, os.path.dirname(os.path.dirname(os.path.abspath(__file__))))
from vf import boot, sim, registry
j = json.load(open(sys.argv[1]))
pid = sys.argv[2] if len(sys.argv) > 2 else j["property"]
prop = registry.get(pid)
cfg, ops = prop.case_from_json(j["case"])
print("cfg", cfg)
for o in ops: print("  op", o)
w = sim.run_case(dict(cfg), ops)
for e in w.log:
    if e.k == "timers":
        print("      .. t=%.4f timers=%s states=%s" % (e.t, [(round(t,3), n.split('.')[-1][:18]) for t, n in e.d["pending"]], e.d["states"]))
    else:
        b = e.brief()
        print("%3d s%-2d c=%s %-7s %s %s" % (b[0], b[1], b[3], b[4], json.dumps(b[6], default=str)[:170], ("ctx=%s" % (b[5][:3],)) if b[5] else ""))
for v in prop.check_case((cfg, ops)).viols: print("VIOL", v)
