#!/usr/bin/env python3
"""Copy evaluated sub-agent seeds into /verif/seeded/<ID>-<n>/ with meta.json.
usage: seed_store.py   (reads /tmp/sa/<ID>/out/mutN and /tmp/sa/results/<ID>-mutN.json)"""
import json, os, shutil, glob, re
HERE = os.path.dirname(os.path.dirname(os.path.abspath(__file__)))
import sys
ROOT = sys.argv[1] if len(sys.argv) > 1 else "/tmp/sa"
TAG = sys.argv[2] if len(sys.argv) > 2 else ""
for res in sorted(glob.glob(ROOT + "/results/*.json")):
    name = os.path.basename(res)[:-5]
    pid, mut = name.split("-")
    src = ROOT + "/%s/out/%s" % (pid, mut)
    try:
        r = json.load(open(res))
    except Exception:
        continue
    ok = r.get("applies") and r.get("tests_ok") and r.get("demo_with") == 1 and r.get("demo_without") == 0
    dst = os.path.join(HERE, "seeded", "%s-%s%s" % (pid, TAG, mut))
    theme = None
    if not re.match(r"C\d\d$", pid):
        # round 3: directories are named after a theme letter; the property is on the first line of notes.md
        theme = pid
        first = open(os.path.join(src, "notes.md")).readline()
        pid = re.search(r"C\d\d", first).group(0)
        dst = os.path.join(HERE, "seeded", "%s%s-%s" % (TAG, theme, mut))
    if not ok:
        print("SKIP %s: not confirmed (%s)" % (name, {k: r.get(k) for k in ("applies", "tests_ok", "demo_with", "demo_without")}))
        continue
    os.makedirs(dst, exist_ok=True)
    for f in ("patch.diff", "demo.py", "notes.md"):
        if os.path.exists(os.path.join(src, f)):
            shutil.copy(os.path.join(src, f), dst)
    notes = open(os.path.join(src, "notes.md")).read() if os.path.exists(os.path.join(src, "notes.md")) else ""
    old = {}
    if os.path.exists(os.path.join(dst, "meta.json")):
        old = json.load(open(os.path.join(dst, "meta.json")))
    checks = dict(old.get("checks_run", {}))
    for k, v in r.get("checks", {}).items():
        checks[k] = {"exit": v["exit"], "rules": [re.sub(r"^rule=", "", x)[:220] for x in v["rules"][:3]]}
    meta = {
        "property": pid,
        "theme": theme,
        "origin": "independent sub-agent given only the property text and a scratch worktree of /repo",
        "needs_to_manifest": notes.strip()[:1500],
        "confirmed": {
            "patch_applies_to_repo_head": True,
            "stable_tests": r.get("tests"),
            "demo_exit_with_change": r.get("demo_with"),
            "demo_exit_without_change": r.get("demo_without"),
            "how": "tools/seed_eval.py: scratch copy of /repo/src under mkdtemp, patch -p1, tools/baseline_check.py (85 stable tests), demo.py with PYTHONPATH=<copy>/src and with /repo/src, ./check <ID> with VERIF_REPO=<copy>",
        },
        "checks_run": checks,
        "caught_by": sorted(k for k, v in checks.items() if v["exit"] == 1),
    }
    json.dump(meta, open(os.path.join(dst, "meta.json"), "w"), indent=1)
    print("%s caught_by=%s" % (name, meta["caught_by"]))
