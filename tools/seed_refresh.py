#!/usr/bin/env python3
"""fold /tmp/seedres/<name>.json (tools/seed_all.sh) into seeded/<name>/meta.json"""
import json, glob, os, re
HERE = os.path.dirname(os.path.dirname(os.path.abspath(__file__)))
for res in sorted(glob.glob("/tmp/seedres/*.json")):
    name = os.path.basename(res)[:-5]
    mp = os.path.join(HERE, "seeded", name, "meta.json")
    if not os.path.exists(mp):
        continue
    try:
        r = json.load(open(res))
    except Exception:
        print("no result for", name); continue
    m = json.load(open(mp))
    m["confirmed"].update({"patch_applies_to_repo_head": bool(r.get("applies")), "stable_tests": r.get("tests"),
                           "demo_exit_with_change": r.get("demo_with"), "demo_exit_without_change": r.get("demo_without")})
    for k, v in r.get("checks", {}).items():
        m["checks_run"][k] = {"exit": v["exit"], "rules": [re.sub(r"^rule=", "", x)[:220] for x in v["rules"][:3]]}
    m["caught_by"] = sorted(k for k, v in m["checks_run"].items() if v["exit"] == 1)
    json.dump(m, open(mp, "w"), indent=1)
    ok = r.get("applies") and r.get("tests_ok") and r.get("demo_with") == 1 and r.get("demo_without") == 0
    print("%-14s valid=%s caught_by=%s" % (name, bool(ok), m["caught_by"]))
