#!/usr/bin/env python3
"""Apply one patch to a scratch copy of the repository and run checks against it.

usage: mutation_run.py <patch> <ID>[,<ID>...] [--tests] [--tier quick]
Prints one line per check: CAUGHT / MISSED (+ the violated rules).  The scratch copy lives under
a fresh mkdtemp outside /repo and /verif and is removed afterwards."""
import os, shutil, subprocess, sys, tempfile
patch = os.path.abspath(sys.argv[1]); ids = sys.argv[2].split(","); run_tests = "--tests" in sys.argv
tier = sys.argv[sys.argv.index("--tier") + 1] if "--tier" in sys.argv else "quick"
here = os.path.dirname(os.path.dirname(os.path.abspath(__file__)))
d = tempfile.mkdtemp(prefix="mut-")
try:
    shutil.copytree("/repo/src", os.path.join(d, "src"), ignore=shutil.ignore_patterns("__pycache__", "*.pyc"))
    for f in ("setup.py", "setup.cfg", "pyproject.toml", "pytest.ini", "tox.ini", "conftest.py"):
        if os.path.exists("/repo/" + f): shutil.copy("/repo/" + f, d)
    r = subprocess.run(["patch", "-p1", "-s", "-d", d, "-i", patch], capture_output=True, text=True)
    if r.returncode: print("PATCH-FAILED", r.stdout, r.stderr); sys.exit(3)
    if run_tests:
        r = subprocess.run([os.path.join(here, "tools/baseline_check.py"), d], capture_output=True, text=True)
        print("tests:", r.stdout.strip().splitlines()[0] if r.stdout else r.stderr[-200:])
    for pid in ids:
        env = dict(os.environ, VERIF_REPO=d, VERIF_TIER=tier, VERIF_EVIDENCE_DIR=os.path.join(d, "ev"))
        r = subprocess.run([os.path.join(here, "check"), pid], capture_output=True, text=True, env=env)
        rules = [l.strip() for l in r.stdout.splitlines() if l.startswith("  rule=")]
        print("%s %s exit=%d %s" % ("CAUGHT" if r.returncode == 1 else "MISSED" if r.returncode == 0 else "ERROR", pid, r.returncode, " | ".join(x[:160] for x in rules[:4])))
        if r.returncode not in (0, 1): print(r.stderr[-1500:])
finally:
    shutil.rmtree(d, ignore_errors=True)
