#!/bin/sh
# offline setup: hypothesis beside the repository's packages, atheris into /verif/.deps
HERE="$(cd "$(dirname "$0")/.." && pwd)"
PY=/venv/bin/python
$PY -c "import hypothesis" 2>/dev/null || $PY -m pip install -q --no-index --find-links /opt/veriftools/wheels hypothesis
mkdir -p "$HERE/.deps"
PYTHONPATH="$HERE/.deps" $PY -c "import atheris" 2>/dev/null || \
  $PY -m pip install -q --no-index --find-links /opt/veriftools/wheels --target "$HERE/.deps" atheris || echo "atheris unavailable: byte-level fuzz tiers will be skipped"
$PY "$HERE/vf/refcodec.py"
exit 0
