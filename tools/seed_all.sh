#!/bin/sh
# evaluate every sub-agent seed against its own property's check; results to /tmp/sa/results/<ID>-<mut>.json
mkdir -p /tmp/sa/results
for p in "$@"; do
  for m in mut1 mut2; do
    [ -f /tmp/sa/$p/out/$m/patch.diff ] || continue
    timeout 3000 /verif/tools/seed_eval.py /tmp/sa/$p/out/$m $p > /tmp/sa/results/$p-$m.json 2>/tmp/sa/results/$p-$m.err
  done
done
