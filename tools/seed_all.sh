#!/bin/sh
# re-evaluate every stored seed (seeded/<name>/patch.diff + demo.py) against /repo HEAD and the current checks;
# results to ${SEEDRES:-/tmp/seedres}/<name>.json ; then tools/seed_refresh.py folds them into the meta.json files
mkdir -p ${SEEDRES:-/tmp/seedres}
cd "$(dirname "$0")/.."
for d in seeded/*/; do
  n=$(basename $d); p=$(python3 -c "import json;print(json.load(open('$d/meta.json'))['property'])")
  extra=$(python3 -c "import json;m=json.load(open('$d/meta.json'));print(','.join(sorted(set(m.get('caught_by',[]))-{m['property']})))")
  ids=$p; [ -n "$extra" ] && ids="$p,$extra"
  timeout 3000 tools/seed_eval.py $d $ids > ${SEEDRES:-/tmp/seedres}/$n.json 2>/dev/null
done
echo finished > ${SEEDRES:-/tmp/seedres}/DONE
