#!/bin/sh
# run every check at several seeds on the unchanged tree; print anything that is not quiet
cd "$(dirname "$0")/.."
for s in "$@"; do
  for p in C01 C02 C03 C04 C05 C06 C07 C08 C09 C10 C11 C12 C13 C14 C15 C16 C17 C18 C19 C20; do
    out=$(VERIF_SEED=$s VERIF_EVIDENCE_DIR=/tmp/soak_ev timeout 1800 ./check $p 2>&1); rc=$?
    if [ $rc -ne 0 ]; then echo "seed=$s $p rc=$rc"; echo "$out" | grep -E "rule=|VIOLATION|HARNESS" | cut -c1-300
      mkdir -p /tmp/soak_found; for f in $(echo "$out" | grep -o "replay=[^ ]*" | cut -d= -f2); do cp "$f" /tmp/soak_found/s$s-$(basename $f) 2>/dev/null; done; fi
  done
  echo "seed $s done"
done
