#!/usr/bin/env python3
"""Regenerates MANIFEST.json from the table below (kept in one place so that it stays valid)."""
import json, os, subprocess
HERE = os.path.dirname(os.path.dirname(os.path.abspath(__file__)))
CHECKS = json.load(open(os.path.join(HERE, "tools", "checks.json")))
props = [json.loads(l)["id"] for l in open(os.path.join(HERE, "properties.jsonl"))]
checks = []
for pid in props:
    c = CHECKS["checks"].get(pid)
    if not c:
        continue
    checks.append({
        "property_id": pid,
        "quick_cmd": "./check %s --tier quick" % pid,
        "thorough_cmd": "./check %s --tier thorough" % pid,
        "evidence_file": "evidence/%s.json" % pid,
        "replay_cmd_template": "./check %s --replay {path}" % pid,
        "engine": c.get("engine", "session-pbt"),
        "level_claimed": {"category": "exploration", "text": c["text"], "design_ref": c.get("design_ref", "DESIGN.md §4 " + pid)},
        "level_note": c.get("note", CHECKS["default_note"]),
        "technique": c["technique"],
    })
na = [{"property_id": pid, "reason": CHECKS["not_applicable"].get(pid, "check not built yet in this revision of /verif (work in progress; see DESIGN.md §4 for the planned oracle)")}
      for pid in props if pid not in CHECKS["checks"]]
try:
    commits = subprocess.run(["git", "-C", "/repo", "log", "--format=%h %s", "85d2961..HEAD"], capture_output=True, text=True).stdout.strip().splitlines()
except Exception:
    commits = []
m = {
    "version": 1,
    "setup_cmd": "sh tools/setup.sh",
    "hooks": {
        "guard": "TWISTED_MQTT_VERIF",
        "enable": "no source hooks are needed: checks import the working tree of /repo (VERIF_REPO) with a virtual reactor installed before mqtt is imported; the guard name is reserved and unused",
        "baseline_off_cmd": "cd /repo && /venv/bin/python -m pytest -ra -q -p no:cacheprovider --timeout=900 --continue-on-collection-errors",
        "source_commits": [],
        "add_only": True,
    },
    "engines": CHECKS["engines"],
    "checks": checks,
    "not_applicable": na,
    "notes": CHECKS["notes"] + " Repository fix commits (unguarded, 'fix:'): " + "; ".join(commits),
}
json.dump(m, open(os.path.join(HERE, "MANIFEST.json"), "w"), indent=1)
print("MANIFEST.json: %d checks, %d not_applicable" % (len(checks), len(na)))
