#!/usr/bin/env python3
"""Evaluate one seeded change: seed_eval.py <dir with patch.diff + demo.py> <ID>[,<ID>...]
 1. patch applies to /repo HEAD (scratch copy)   2. stable tests still pass
 3. demo: exit 1 with the change, exit 0 without  4. which checks catch it (quick tier)"""
import os, shutil, subprocess, sys, tempfile, json
d = os.path.abspath(sys.argv[1]); ids = sys.argv[2].split(",")
here = os.path.dirname(os.path.dirname(os.path.abspath(__file__)))
tmp = tempfile.mkdtemp(prefix="seed-")
out = {"dir": d, "ids": ids}
try:
    shutil.copytree("/repo/src", os.path.join(tmp, "src"), ignore=shutil.ignore_patterns("__pycache__", "*.pyc"))
    r = subprocess.run(["patch", "-p1", "-s", "-d", tmp, "-i", os.path.join(d, "patch.diff")], capture_output=True, text=True)
    out["applies"] = r.returncode == 0
    if r.returncode:
        out["patch_err"] = (r.stdout + r.stderr)[-400:]
    else:
        r = subprocess.run([os.path.join(here, "tools/baseline_check.py"), tmp], capture_output=True, text=True)
        out["tests"] = r.stdout.strip().splitlines()[0] if r.stdout else r.stderr[-200:]
        out["tests_ok"] = r.returncode == 0
        env = dict(os.environ, PYTHONPATH=os.path.join(tmp, "src"))
        r = subprocess.run(["/venv/bin/python", os.path.join(d, "demo.py")], capture_output=True, text=True, env=env, cwd=tmp, timeout=600)
        out["demo_with"] = r.returncode
        env = dict(os.environ, PYTHONPATH="/repo/src")
        r = subprocess.run(["/venv/bin/python", os.path.join(d, "demo.py")], capture_output=True, text=True, env=env, cwd="/repo", timeout=600)
        out["demo_without"] = r.returncode
        out["checks"] = {}
        for pid in ids:
            env = dict(os.environ, VERIF_REPO=tmp, VERIF_TIER="quick", VERIF_EVIDENCE_DIR=os.path.join(tmp, "ev"))
            r = subprocess.run([os.path.join(here, "check"), pid], capture_output=True, text=True, env=env, timeout=1800)
            rules = [l.strip()[:200] for l in r.stdout.splitlines() if l.startswith("  rule=")]
            out["checks"][pid] = {"exit": r.returncode, "rules": rules[:5]}
finally:
    shutil.rmtree(tmp, ignore_errors=True)
print(json.dumps(out, indent=1))
