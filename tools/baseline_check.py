#!/usr/bin/env python3
"""Run the repository's pinned test suite (guard off) and compare with /root/.vp/BASELINE.json:
every stable_pass test must pass.  usage: baseline_check.py [repo_dir]"""
import json, os, subprocess, sys, tempfile, xml.etree.ElementTree as ET
repo = sys.argv[1] if len(sys.argv) > 1 else "/repo"
base = json.load(open("/root/.vp/BASELINE.json"))
fd, out = tempfile.mkstemp(suffix=".xml"); os.close(fd)
env = dict(os.environ); env.pop("TWISTED_MQTT_VERIF", None)
subprocess.run(["/venv/bin/python", "-m", "pytest", "-q", "-p", "no:cacheprovider", "--timeout=900",
                "--continue-on-collection-errors", "--junitxml=" + out], cwd=repo, env=env,
               stdout=subprocess.DEVNULL, stderr=subprocess.DEVNULL)
passed = set()
for tc in ET.parse(out).getroot().iter("testcase"):
    if not any(ch.tag in ("failure", "error", "skipped") for ch in tc):
        passed.add("%s::%s" % (tc.get("classname"), tc.get("name")))
os.unlink(out)
missing = [t for t in base["stable_pass"] if t not in passed]
print("stable_pass %d, passing now %d, missing %d" % (len(base["stable_pass"]), len(passed), len(missing)))
for m in missing: print("  MISSING", m)
sys.exit(1 if missing else 0)
