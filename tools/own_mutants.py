#!/usr/bin/env python3
"""My own small mutants: (name, file, old, new, checks expected to catch).  Generates mutants/<name>.patch against /repo HEAD
and (with --run) runs the listed checks on each.  A mutant whose old text is gone is reported STALE."""
import os, subprocess, sys, tempfile, shutil
P = "src/mqtt/client/pubsubs.py"; B = "src/mqtt/client/base.py"; F = "src/mqtt/client/factory.py"; D = "src/mqtt/pdu.py"; I = "src/mqtt/client/interval.py"
M = [
 ("m03_connack_timeout_1s", B, "request.alarm = self.callLater(request.keepalive or 10, connectError)", "request.alarm = self.callLater(request.keepalive or 1, connectError)", "C04"),
 ("m05_granted_truncated", P, "request.deferred.callback(response.granted)", "request.deferred.callback(response.granted[:len(request.topics)])", "C07"),
 ("m06_tuple_shape_loses_qos", P, "request.topics = [(request.topics[0], request.topics[1])] ", "request.topics = [(request.topics[0], request.qos)] ", "C07"),
 ("m07_subscribe_window_shared", F, "v = self.windowSubscribe.get(addr, dict() )", "v = self.windowSubscribe.get(None, dict() ); self.windowSubscribe[None] = v", "C19,C07"),
 ("m08_publish_dup_only_v31", P, "        request.encoded[0] |=  (dup << 3)   # set the dup flag\n        request.dup = dup", "        if self._version == v31:\n            request.encoded[0] |=  (dup << 3)   # set the dup flag\n        request.dup = dup", "C08,C02"),
 ("m09_notification_twice", B, "            self.callLater(0.1, self.onDisconnection, reason)", "            self.callLater(0.1, self.onDisconnection, reason)\n            self.callLater(0.2, self.onDisconnection, reason)", "C04,C13"),
 ("m11_pubrec_keeps_window_entry", P, "            request.alarm.cancel()\n            del self.factory.windowPublish[self.addr][response.msgId]\n            reply = PUBREL()", "            reply = PUBREL()", "C09,C05"),
 ("m13_window_zero_accepted", B, "        if not (1 <= n <= self.MAX_WINDOW):", "        if not (0 <= n <= self.MAX_WINDOW):", "C20"),
 ("m33_flags_not_checked_for_acks", B, "            if packet_flags != expected:", "            if packet_flags != expected and packet_type_name == \"PUBREL\":", "C16"),
 ("m34_fixed_length_only_too_short", B, "            if len(packet) - lenLen - 1 != self.fixedLengths[packet_type_name]:", "            if len(packet) - lenLen - 1 < self.fixedLengths[packet_type_name]:", "C16"),
 ("m35_backoff_limit_resets", I, "        if self._value < self.maxDelay:\n            self._k    *= self.factor", "        if self._value < self.maxDelay:\n            self._k    *= self.factor\n        else:\n            self._k = 1", "C08"),
 ("m14_clientid_23_rejected", B, "len(request.clientId) > 23:", "len(request.clientId) >= 23:", "C20"),
 ("m15_pingresp_no_cancel", B, "            self._pingReq.alarms.pop(0).cancel()\n", "            pass\n", "C15"),
 ("m16_ping_deadline_2k", B, "self._pingReq.alarms.append(self.callLater(self._pingReq.keepalive, doPingError))", "self._pingReq.alarms.append(self.callLater(2*self._pingReq.keepalive, doPingError))", "C15"),
 ("m17_delivered_dup_always_false", P, "self.onPublish(pdu.topic, pdu.payload, pdu.qos, pdu.dup, pdu.retain, pdu.msgId)", "self.onPublish(pdu.topic, pdu.payload, pdu.qos, False, pdu.retain, pdu.msgId)", "C06"),
 ("m18_purge_release_no_errback", P, "            del self.factory.windowPubRelease[self.addr][k]\n            purged.append(request)", "            del self.factory.windowPubRelease[self.addr][k]", "C11,C16"),
 ("m19_string_prefix_in_chars", D, "    l = len(encoded)-2\n", "    l = len(string)\n", "C01,C02"),
 ("m21_puback_wrong_id", P, "            reply = PUBACK()\n            reply.msgId = response.msgId", "            reply = PUBACK()\n            reply.msgId = response.msgId if response.msgId < 3 else response.msgId - 1", "C06"),
 ("m22_refill_pops_right", P, "            request = queue.popleft()", "            request = queue.pop()", "C10"),
 ("m23_unsub_window_not_emptied", P, "        for k in list(self.factory.windowUnsubscribe[self.addr]):\n            request = self.factory.windowUnsubscribe[self.addr][k]\n            del self.factory.windowUnsubscribe[self.addr][k]\n            request.deferred.errback(reason)", "        for k in list(self.factory.windowUnsubscribe[self.addr]):\n            request = self.factory.windowUnsubscribe[self.addr][k]\n            request.deferred.errback(reason)", "C07,C11"),
 ("m24_id_zero_not_skipped", F, "            self.id = self.id or 1   # avoid id 0", "            pass", "C17"),
 ("m25_interval_factor_inverse", I, "        self._k    *= self.factor", "        self._k    /= self.factor", "C08"),
 ("m26_connecting_state_not_reset_on_refusal", B, "        else:\n            self.state = self.IDLE\n            try:", "        else:\n            try:", "C04,C14"),
 ("m27_suback_failure_mask", D, "        self.granted = [ (byte & 0x7F, byte & 0x80 == 0x80) ", "        self.granted = [ (byte & 0x03, byte & 0x80 == 0x80) ", "C01,C02"),
 ("m28_will_qos_shift", D, "(self.willQoS << 3)", "(self.willQoS << 2)", "C01,C02"),
 ("m29_varint_boundary", D, "        if value > 0:\n            digit |= 128", "        if value > 1:\n            digit |= 128", "C01,C02"),
 ("m31_ping_deadline_survives_loss", B, "        while self._pingReq.alarms:\n            self._pingReq.alarms.pop().cancel()\n", "        self._pingReq.alarms = []\n", "C15,C13"),
 ("m32_pingresp_cancels_newest", B, "            self._pingReq.alarms.pop(0).cancel()\n", "            self._pingReq.alarms.pop().cancel()\n", "C15"),
 ("m30_qos2_delivered_at_publish_too", P, "            self.factory.windowPubRx[self.addr][response.msgId] = response\n", "            self.factory.windowPubRx[self.addr][response.msgId] = response\n            self._deliver(response)\n", "C06"),
]
def main():
    run = "--run" in sys.argv
    only = [a for a in sys.argv[1:] if not a.startswith("--")]
    here = os.path.dirname(os.path.dirname(os.path.abspath(__file__)))
    for name, path, old, new, checks in M:
        if only and name not in only: continue
        src = open(os.path.join("/repo", path)).read()
        if src.count(old) != 1:
            print("%-44s STALE (old text occurs %d times)" % (name, src.count(old))); continue
        d = tempfile.mkdtemp()
        try:
            for side, text in (("a", src), ("b", src.replace(old, new))):
                os.makedirs(os.path.join(d, side, os.path.dirname(path)))
                open(os.path.join(d, side, path), "w").write(text)
            r = subprocess.run(["diff", "-u", os.path.join("a", path), os.path.join("b", path)], cwd=d, capture_output=True, text=True)
            pf = os.path.join(here, "mutants", name + ".patch"); open(pf, "w").write(r.stdout)
        finally:
            shutil.rmtree(d)
        if run:
            r = subprocess.run([os.path.join(here, "tools/mutation_run.py"), pf, checks, "--tests"], capture_output=True, text=True)
            lines = r.stdout.strip().splitlines()
            print("%-44s %s" % (name, " || ".join(l[:110] for l in lines)))
            sys.stdout.flush()
main()
