#!/usr/bin/env python3
"""Re-create seeded/<name>/patch.diff against /repo HEAD when later fix commits moved its context:
apply with patch --fuzz=3 in a scratch copy and diff the trees.  usage: seed_port.py <name>..."""
import os, shutil, subprocess, sys, tempfile, json
here = os.path.dirname(os.path.dirname(os.path.abspath(__file__)))
for name in sys.argv[1:]:
    d = os.path.join(here, "seeded", name)
    tmp = tempfile.mkdtemp(prefix="port-")
    try:
        for x in ("a", "b"):
            shutil.copytree("/repo/src", os.path.join(tmp, x, "src"), ignore=shutil.ignore_patterns("__pycache__", "*.pyc"))
        r = subprocess.run(["patch", "-p1", "-s", "--fuzz=3", "--no-backup-if-mismatch", "-d", os.path.join(tmp, "b"), "-i", os.path.join(d, "patch.diff")],
                           capture_output=True, text=True)
        if r.returncode:
            print(name, "FAILED even with fuzz:", (r.stdout + r.stderr)[-200:].replace("\n", " "))
            continue
        for root, _, files in os.walk(os.path.join(tmp, "b")):
            for f in files:
                if f.endswith((".orig", ".rej")):
                    os.remove(os.path.join(root, f))
        r = subprocess.run(["diff", "-ruN", "a/src", "b/src"], capture_output=True, text=True, cwd=tmp)
        if not os.path.exists(os.path.join(d, "patch.orig.diff")):
            shutil.copy(os.path.join(d, "patch.diff"), os.path.join(d, "patch.orig.diff"))
        open(os.path.join(d, "patch.diff"), "w").write(r.stdout)
        m = json.load(open(os.path.join(d, "meta.json")))
        m["ported"] = "patch.diff re-created against /repo HEAD (context moved by later fix commits); the sub-agent's original is patch.orig.diff"
        json.dump(m, open(os.path.join(d, "meta.json"), "w"), indent=1)
        print(name, "ported,", len(r.stdout.splitlines()), "lines")
    finally:
        shutil.rmtree(tmp, ignore_errors=True)
